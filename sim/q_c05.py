"""C05 - auto-scaled fixed point: output = in-range integer codes x exposed scale.

State: `quantizer.scale` (quantized_bits) / `quantization_scale` (quantized_linear)
is rewritten by every call unless the scale is frozen (post_training_scale).
Checked after every CALL with the scale exposed right after it, across call
histories on shared objects, restarts, set_trainable (alpha None -> auto_po2
mid-life) and the freeze pipeline (read scale -> build frozen quantizer, which
is what clone_model_and_freeze_auto_po2_scale does).

"within any configured exponent bounds": quantized_bits clips the scale of the
integer codes and exposes scale*2^(bits-keep_negative); the export divides that
factor out again.  The bounds are therefore applied to exposed/2^(bits-kn)
(DESIGN 4/C05; an oracle decision recorded there).
"""
import json

import numpy as np

from . import engine_q as Q
from . import qspecs
from .q_c04 import group_ids

CLASSES = ["quantized_bits", "quantized_bits", "quantized_linear"]


def fmt(spec, alpha_now):
  kw = spec["kw"]
  c = spec["cls"]
  bits = kw.get("bits", 8)
  kn = 1 if kw.get("keep_negative", True) else 0
  integer = kw.get("integer", 0)
  ub = bits - kn
  step = 2.0 ** (integer - ub)
  if c == "quantized_bits":
    sym = 1       # auto* forces symmetric
    top = 2.0 ** (bits - 1) - 1
    lo, hi = -top, top
  else:
    sym = 1 if kw.get("symmetric", 1) else 0
    if bits == 1 and kn:
      return {"step": step, "lo": -0.5, "hi": 0.5, "off": 0.5, "ub": ub,
              "kn": kn, "bits": bits}
    p = 2.0 ** ub
    lo, hi = kn * (-p + sym), p - 1.0
  return {"step": step, "lo": lo, "hi": hi, "off": 0.0, "ub": ub, "kn": kn,
          "bits": bits}


class Oracle(Q.QOracle):
  focus = "c05"

  def start(self):
    self.alpha_now = [s["kw"].get("alpha") for s in self.w.specs]
    self.frozen = {}
    self.repeat = {}
    self.epoch = [0] * self.w.n()

  def mirror(self, op):
    if op["k"] == "TRAINABLE":
      qi = op["q"]
      if self.alpha_now[qi] is None:
        self.alpha_now[qi] = "auto_po2"
        self.epoch[qi] += 1

  def on_restart(self, qi, op, ok):
    self.w.last.pop(qi, None)

  def _is_frozen(self, qi):
    return self.w.specs[qi]["kw"].get("post_training_scale") is not None

  def on_read_scale(self, qi, s):
    w, ctx = self.w, self.ctx
    spec = w.specs[qi]
    if self._is_frozen(qi):
      ctx.checked()
      ctx.probe("frozen_scale_read")
      want = np.asarray(spec["kw"]["post_training_scale"], np.float32)
      if isinstance(s, str) or s is None or not Q.same(
          np.asarray(s, np.float32).reshape(-1), want.reshape(-1)):
        ctx.violation("%s|frozen-scale-changed" % spec["cls"],
                      "exposed scale %r is not the configured post-training "
                      "scale %r" % (s, want.tolist()))
      return
    last = w.last.get(qi)
    if last is None:
      return
    ctx.checked()
    ctx.probe("read_scale_checked")
    if not Q.same(s, last["scale"]):
      ctx.violation("%s|read-scale-not-last-call" % spec["cls"],
                    "scale read later differs from the scale exposed by the "
                    "most recent call; kw=%r" % (spec["kw"],))

  def on_call(self, qi, op, x, y, scale, failed):
    w, ctx = self.w, self.ctx
    spec = w.specs[qi]
    c, kw = spec["cls"], spec["kw"]
    if failed or isinstance(scale, str):
      return
    alpha = self.alpha_now[qi]
    if not isinstance(alpha, str):
      ctx.probe("call_with_data_independent_scale_not_judged")
      return
    if kw.get("qnoise_factor", 1.0) != 1.0:
      return
    if w.phase == 1 and kw.get("use_stochastic_rounding") and \
        c == "quantized_linear":
      ctx.probe("stochastic_training_call_not_judged")
      return
    ctx.checked()
    msg = self.judge(spec, alpha, x, y, scale)
    if msg:
      ctx.violation("%s|%s" % (c, msg[0]), "%s; kw=%r alpha_now=%r shape=%r "
                    "tensor=%r" % (msg[1], kw, alpha, list(x.shape), op["t"]))
      return
    key = (qi, self.epoch[qi], w.phase, json.dumps(op["t"], sort_keys=True))
    prev = self.repeat.get(key)
    if prev is None:
      self.repeat[key] = (y.copy(), np.copy(scale))
    else:
      ctx.checked()
      ctx.probe("repeat_call_compared")
      if not (Q.same(prev[0], y) and Q.same(prev[1], scale)):
        ctx.violation("%s|repeat-call-differs" % c,
                      "same tensor, same object: output or scale changed "
                      "between two calls; kw=%r" % (kw,))

  def judge(self, spec, alpha, x, y, scale):
    c, kw = spec["cls"], spec["kw"]
    f = fmt(spec, alpha)
    x64, y64 = x.astype(np.float64), y.astype(np.float64)
    if not np.isfinite(y64).all():
      return ("non-finite-output", "finite input gave %r" % (
          float(y64.reshape(-1)[int(np.argmin(np.isfinite(y64).reshape(-1)))]),))
    if scale is None:
      return ("no-scale-exposed", "scale is None after the call")
    s = np.asarray(scale, np.float64)
    if not np.isfinite(s).all():
      return ("non-finite-scale", "scale %r" % (s.reshape(-1)[:4].tolist(),))
    try:
      sb = np.broadcast_to(s, x.shape)
    except ValueError:
      return ("scale-shape", "scale %r vs input %r" % (s.shape, x.shape))
    frozen = kw.get("post_training_scale") is not None
    if frozen:
      want = np.asarray(kw["post_training_scale"], np.float64)
      if s.size != want.size or np.abs(s.reshape(-1) - want.reshape(-1)).max() > 0:
        return ("frozen-scale-changed", "exposed %r configured %r" % (
            s.reshape(-1)[:4].tolist(), want.reshape(-1)[:4].tolist()))
    if (sb <= 0).any():
      return ("scale-not-positive", "scale %r exposed (min over tensor)" % (
          float(sb.min()),))
    # one value per output channel / configured group
    if not frozen:
      if len(x.shape) > 1:
        gid = group_ids(x.shape, kw.get("scale_axis"),
                        kw.get("elements_per_scale"))
      elif c == "quantized_bits" and alpha == "auto":
        # rank 1: quantized_bits takes one maximum over the whole vector
        gid = np.zeros(x.shape[0], dtype=np.int64)
      else:
        gid = np.arange(x.shape[0])
      g = gid.reshape(-1)
      n = int(g.max()) + 1
      smax = np.full(n, -np.inf)
      smin = np.full(n, np.inf)
      np.maximum.at(smax, g, sb.reshape(-1))
      np.minimum.at(smin, g, sb.reshape(-1))
      if (smax - smin > 0).any():
        j = int(np.argmax(smax - smin))
        return ("scale-not-constant-per-channel",
                "channel/group %d holds scales %r..%r" % (
                    j, float(smin[j]), float(smax[j])))
    unit = sb * f["step"]
    k = (y64 - f["off"] * unit) / unit
    tolk = 1e-4 + 2.4e-7 * np.maximum(np.abs(x64), np.abs(y64)) / unit
    off = np.abs(k - np.round(k)) > tolk
    if off.any():
      i = int(np.argmax(off.reshape(-1)))
      return ("not-integer-code-times-scale",
              "y=%r scale=%r step=%r -> %r codes" % (
                  float(y64.reshape(-1)[i]), float(sb.reshape(-1)[i]),
                  f["step"], float(k.reshape(-1)[i])))
    kk = np.round(k) + f["off"]
    out = (kk < f["lo"] - tolk) | (kk > f["hi"] + tolk)
    if out.any():
      i = int(np.argmax(out.reshape(-1)))
      return ("code-out-of-range", "code %r outside [%r,%r] of %d bits" % (
          float(kk.reshape(-1)[i]), f["lo"], f["hi"], f["bits"]))
    if alpha == "auto" and not frozen:
      m = self._auto_max(spec, f, x64, y64, kk, sb, gid)
      if m:
        return m
    if alpha == "auto_po2" and not frozen:
      e = np.log2(sb)
      if (np.abs(e - np.round(e)) > 1e-6).any():
        i = int(np.argmax(np.abs(e - np.round(e)).reshape(-1)))
        return ("scale-not-power-of-two", "scale %r" % (
            float(sb.reshape(-1)[i]),))
      if c == "quantized_bits":
        ee = np.round(e) - f["ub"]
        lo, hi = kw.get("min_po2_exponent"), kw.get("max_po2_exponent")
        if lo is not None and (ee < lo).any():
          return ("po2-exponent-below-min", "exponent %r < %r" % (
              float(ee.min()), lo))
        if hi is not None and (ee > hi).any():
          return ("po2-exponent-above-max", "exponent %r > %r" % (
              float(ee.max()), hi))
    return None

  def _auto_max(self, spec, f, x64, y64, kk, sb, gid):
    """'auto' maps the channel maximum to the top code without clipping."""
    g = gid.reshape(-1)
    n = int(g.max()) + 1
    ax = np.abs(x64).reshape(-1)
    mx = np.zeros(n)
    np.maximum.at(mx, g, ax)
    # channels whose scale sits at the library's epsilon floor are not judged
    is_max = (ax >= mx[g]) & (mx[g] > 1e-4)
    if spec["cls"] == "quantized_linear" and not f["kn"]:
      # unsigned: the maximum of x (not of |x|) defines the scale
      xs = x64.reshape(-1)
      mx = np.full(n, -np.inf)
      np.maximum.at(mx, g, xs)
      is_max = (xs >= mx[g]) & (mx[g] > 1e-4)
    # "well above the epsilon floor": the scale the library derives is
    # maximum / 2^integer / top code, clamped to epsilon (1e-7); a channel is
    # judged only when that value is at least ten times the clamp
    top_code = max(abs(f["lo"]), abs(f["hi"]), 1.0)
    integer = float(spec["kw"].get("integer", 0))
    is_max = is_max & (mx[g] / 2.0 ** integer / top_code > 1e-6)
    if not is_max.any():
      return None
    unit = (sb * f["step"]).reshape(-1)
    err = np.abs(y64.reshape(-1) - x64.reshape(-1))
    clipped = is_max & (err > 0.5 * unit * (1 + 1e-4) + 2.4e-7 * ax)
    if clipped.any():
      i = int(np.argmax(clipped))
      return ("auto-clips-channel-maximum",
              "channel maximum %r quantized to %r (step %r)" % (
                  float(x64.reshape(-1)[i]), float(y64.reshape(-1)[i]),
                  float(unit[i])))
    top = min(abs(f["lo"]), abs(f["hi"])) if f["off"] == 0 else 0.5
    if not f["kn"]:
      top = f["hi"]   # unsigned: codes 0..2^bits-1, the maximum maps to the last
    nottop = is_max & (np.abs(kk.reshape(-1)) < top - 1e-3)
    if nottop.any():
      i = int(np.argmax(nottop))
      return ("auto-maximum-not-top-code",
              "channel maximum %r got code %r, top code is %r" % (
                  float(x64.reshape(-1)[i]), float(kk.reshape(-1)[i]), top))
    return None

  # ------------------------------------------------------------------
  def scaled(self, qi, op):
    """q(2^k x) = 2^k q(x) for magnitudes well above the epsilon floor."""
    w, ctx = self.w, self.ctx
    spec = w.specs[qi]
    c, kw = spec["cls"], spec["kw"]
    alpha = self.alpha_now[qi]
    if not isinstance(alpha, str) or self._is_frozen(qi):
      return
    if kw.get("min_po2_exponent") is not None or \
        kw.get("max_po2_exponent") is not None or \
        kw.get("qnoise_factor", 1.0) != 1.0:
      return
    if w.phase == 1 and kw.get("use_stochastic_rounding"):
      return
    if not kw.get("keep_negative", True):
      return   # all-negative channels sit at the epsilon floor
    x = Q.make_tensor(spec["shape"], op["t"])
    x = np.where(np.abs(x) < 0.05, np.sign(x) * 0.05 + (x == 0) * 0.05, x)
    x = np.clip(x, -50, 50).astype(np.float32)
    k = int(op["kpow"])
    ok1, y1 = Q.guard(ctx, "%s|call" % c, w.call_raw, w.qs[qi], x, 0)
    if not ok1:
      return
    s1 = Q.read_scale(w.qs[qi])
    x2 = (x.astype(np.float64) * 2.0 ** k).astype(np.float32)
    ok2, y2 = Q.guard(ctx, "%s|call" % c, w.call_raw, w.qs[qi], x2, 0)
    if not ok2:
      return
    s2 = Q.read_scale(w.qs[qi])
    w.last[qi] = {"x": x2, "y": y2, "scale": s2, "phase": w.phase}
    ctx.fault("scaled_pair")
    ctx.checked()
    ctx.log("scaled", y1, y2)
    if isinstance(s1, str) or isinstance(s2, str):
      return
    f = 2.0 ** k
    if alpha == "auto_po2":
      r = np.asarray(s2, np.float64) / (np.asarray(s1, np.float64) * f)
      if np.all(r == 1.0):
        pass
      elif np.all((r == 1.0) | (r == 2.0) | (r == 0.5)):
        # a rounding tie of the power-of-two scale (epsilon shifts it)
        ctx.probe("scaled_po2_tie_not_judged")
        return
      else:
        ctx.violation("%s|scale-not-equivariant" % c,
                      "scale(2^%d x)/(2^%d scale(x)) = %r; kw=%r" % (
                          k, k, np.unique(r)[:4].tolist(), kw))
        return
    err = np.abs(y2.astype(np.float64) - f * y1.astype(np.float64))
    tol = 1e-6 * np.abs(y2.astype(np.float64)) + 1e-30
    if (err > tol).any():
      i = int(np.argmax((err - tol).reshape(-1)))
      ctx.violation("%s|not-equivariant-under-po2-scaling" % c,
                    "q(2^%d x)=%r but 2^%d q(x)=%r at x=%r; kw=%r" % (
                        k, float(y2.reshape(-1)[i]), k,
                        float(f * y1.reshape(-1)[i]),
                        float(x.reshape(-1)[i]), kw))

  def freeze(self, qi, op):
    """read scale -> build frozen quantizer (the library utility's pipeline)."""
    w, ctx = self.w, self.ctx
    spec = w.specs[qi]
    if spec["cls"] != "quantized_bits" or self._is_frozen(qi):
      return
    if not isinstance(self.alpha_now[qi], str):
      return
    if spec["kw"].get("qnoise_factor", 1.0) != 1.0:
      return
    import qkeras.quantizers as qq
    q = w.qs[qi]
    x = Q.make_tensor(spec["shape"], op["t"])
    ok, y = Q.guard(ctx, "quantized_bits|call", w.call_raw, q, x, 0)
    if not ok:
      return
    s = Q.read_scale(q)
    w.last[qi] = {"x": x, "y": y, "scale": s, "phase": w.phase}
    if isinstance(s, str) or s is None:
      return

    def build():
      cfg = q.get_config()
      cfg["post_training_scale"] = np.asarray(s)
      return qq.quantized_bits(**cfg)
    ok, fq = Q.guard(ctx, "quantized_bits|freeze", build)
    if not ok:
      return
    ctx.fault("freeze")
    self.frozen[qi] = {"q": fq, "x": x, "y": y, "s": np.asarray(s),
                       "phase": w.phase}
    self.frozen_check(qi, "at-freeze")

  def frozen_check(self, qi, when="later"):
    w, ctx = self.w, self.ctx
    fr = self.frozen.get(qi)
    if fr is None:
      return
    if w.phase != fr["phase"] and w.specs[qi]["kw"].get(
        "use_stochastic_rounding"):
      return
    ok, y = Q.guard(ctx, "quantized_bits|frozen-call", w.call_raw, fr["q"],
                    fr["x"], 0)
    if not ok:
      return
    ctx.checked()
    ctx.probe("frozen_call_compared")
    fs = Q.read_scale(fr["q"])
    if not Q.same(y, fr["y"]):
      ctx.violation("quantized_bits|frozen-output-differs:" + when,
                    "frozen quantizer differs from the live one on the tensor "
                    "its scale came from; kw=%r maxdiff=%g" % (
                        w.specs[qi]["kw"], float(np.max(np.abs(
                            y.astype(np.float64) - fr["y"])))))
    elif not Q.same(np.asarray(fs).reshape(-1), fr["s"].reshape(-1)):
      ctx.violation("quantized_bits|frozen-scale-changed",
                    "frozen quantizer exposes %r, configured %r" % (
                        np.asarray(fs).reshape(-1)[:4].tolist(),
                        fr["s"].reshape(-1)[:4].tolist()))

  def frozen_other(self, qi, op):
    fr = self.frozen.get(qi)
    if fr is None:
      return
    x = Q.make_tensor(self.w.specs[qi]["shape"], op["t"])
    Q.guard(self.ctx, "quantized_bits|frozen-call", self.w.call_raw, fr["q"],
            x, 0)
    self.frozen_check(qi, "after-other-tensor")

  def frozen_restart(self, qi, op):
    fr = self.frozen.get(qi)
    if fr is None:
      return
    ok, q2 = Q.guard(self.ctx, "quantized_bits|frozen-restart", Q.restart,
                     fr["q"], op.get("route", "from_config"),
                     bool(op.get("json")), always=True)
    if ok:
      fr["q"] = q2
      self.ctx.fault("frozen_restart")
      self.frozen_check(qi, "after-restart")


# ---------------------------------------------------------------------------
ENGINE = "Q"
LEVEL = "exploration"
RULE = ("scenario = 1-3 quantized_bits/quantized_linear objects with alpha in "
        "{auto, auto_po2} (bits 2..8, integer 0..3, scale_axis, "
        "elements_per_scale, exponent bounds, post_training_scale) + seeded ops "
        "(CALL / READ_SCALE / SCALED pair / FREEZE / FROZEN_OTHER / "
        "FROZEN_RESTART / PHASE / TRAINABLE / RESTART); non-trivial = a fault "
        "(restart, freeze, set_trainable, phase flip, scaled pair) fired and an "
        "oracle check ran afterwards; distinct = distinct (op-kind sequence, "
        "fired fault kinds, class/option bucket)")
REAL = ["qkeras.quantizers quantized_bits / quantized_linear auto-scale paths",
        "_get_least_squares_scale", "TensorFlow kernels"]
STUB = ["tf.random.uniform (seam)", "learning phase (scheduler-driven)",
        "freeze pipeline re-enacted on one quantizer (the whole-model utility "
        "is exercised by C14)"]
WEIGHTS = {"CALL": 10, "READ_SCALE": 3, "PHASE": 1, "TRAINABLE": 0.7,
           "RESTART": 1.5}
KINDS = [("gauss", 5), ("uniform", 2), ("zeros", 1), ("zero_channel", 3),
         ("mixed", 3), ("grid", 1), ("pos", 1)]
MAGS = [1.0, 1.0, 0.3, 3.0, 1e-3, 50.0, 1e4, 1e6, 1e-6]


def apply_extra(ctx, w, oracle, op):
  k = op["k"]
  qi = op.get("q", 0) % w.n()
  if k == "SCALED":
    oracle.scaled(qi, op)
  elif k == "FREEZE":
    oracle.freeze(qi, op)
  elif k == "FROZEN_CHECK":
    oracle.frozen_check(qi)
  elif k == "FROZEN_OTHER":
    oracle.frozen_other(qi, op)
  elif k == "FROZEN_RESTART":
    oracle.frozen_restart(qi, op)
  else:
    return False
  return True


def execute(scn, known=(), stop=True):
  return Q.execute("C05", scn, known, {"C05": Oracle}, stop, extra=apply_extra)


def c05_spec(rng):
  cls = rng.pick(CLASSES)
  s = qspecs.gen_spec(rng, cls, focus="c05")
  kw = s["kw"]
  kw.pop("qnoise_factor", None)
  if cls == "quantized_bits" and rng.chance(0.15):
    # frozen from the start
    n = s["shape"][-1] if len(s["shape"]) > 1 else s["shape"][0]
    for k in ("scale_axis", "elements_per_scale"):
      kw.pop(k, None)
    kw["post_training_scale"] = [float(2.0 ** rng.randrange(-3, 4))
                                 for _ in range(n)]
    if len(s["shape"]) == 1:
      pass
  return s


def generate(rng):
  nq = rng.wpick([(1, 5), (2, 3), (3, 1)])
  world = {"quantizers": [c05_spec(rng) for _ in range(nq)]}
  base = Q.gen_ops(rng, world, WEIGHTS, rng.randrange(6, 24), KINDS, MAGS)
  ops = []
  for op in base:
    ops.append(op)
    r = rng.random()
    if r < 0.10:
      ops.append({"k": "SCALED", "q": rng.randrange(nq),
                  "t": Q.gen_tensor(rng, [("gauss", 3), ("uniform", 2),
                                          ("pos", 1)], [1.0, 3.0, 0.5]),
                  "kpow": rng.pick([-3, -2, -1, 1, 2, 3, 5])})
    elif r < 0.18:
      ops.append({"k": "FREEZE", "q": rng.randrange(nq),
                  "t": Q.gen_tensor(rng, KINDS, [1.0, 3.0, 0.3, 20.0])})
    elif r < 0.24:
      ops.append({"k": "FROZEN_OTHER", "q": rng.randrange(nq),
                  "t": Q.gen_tensor(rng, KINDS, MAGS)})
    elif r < 0.29:
      ops.append({"k": "FROZEN_RESTART", "q": rng.randrange(nq),
                  "route": rng.pick(["from_config", "get_quantizer", "keras"]),
                  "json": rng.chance(0.5)})
    elif r < 0.33:
      ops.append({"k": "FROZEN_CHECK", "q": rng.randrange(nq)})
  calls = [o for o in ops if o["k"] == "CALL"]
  for _ in range(min(2, len(calls))):
    src = rng.pick(calls)
    ops.insert(rng.randrange(len(ops) + 1),
               {"k": "CALL", "q": src["q"], "t": dict(src["t"]),
                "sub": rng.subseed()})
  return {"seed": rng.subseed(), "world": world, "ops": ops}


def directed():
  out = []
  tensors = [{"kind": "gauss", "seed": 41, "mag": 1.0},
             {"kind": "zero_channel", "seed": 42, "mag": 2.0},
             {"kind": "mixed", "seed": 43, "mag": 5.0},
             {"kind": "zeros", "seed": 44, "mag": 1.0},
             {"kind": "gauss", "seed": 45, "mag": 1e-6},
             {"kind": "gauss", "seed": 46, "mag": 1e6}]
  shapes = [[6], [4, 4], [2, 2, 4], [2, 2, 2, 4]]
  cfgs = []
  for cls in ("quantized_bits", "quantized_linear"):
    for alpha in ("auto", "auto_po2"):
      for bits, integer in ((2, 0), (4, 1), (8, 0), (3, 3)):
        cfgs.append((cls, {"bits": bits, "integer": integer, "alpha": alpha}))
    cfgs.append((cls, {"bits": 4, "alpha": "auto", "scale_axis": 0}))
    cfgs.append((cls, {"bits": 4, "alpha": "auto_po2", "scale_axis": 0}))
  cfgs.append(("quantized_linear", {"bits": 4, "alpha": "auto", "symmetric": 0}))
  cfgs.append(("quantized_linear", {"bits": 4, "alpha": "auto",
                                    "keep_negative": False}))
  cfgs.append(("quantized_bits", {"bits": 4, "alpha": "auto_po2",
                                  "scale_axis": 1, "elements_per_scale": 2}))
  cfgs.append(("quantized_bits", {"bits": 4, "alpha": "auto_po2",
                                  "min_po2_exponent": -1}))
  cfgs.append(("quantized_bits", {"bits": 4, "alpha": "auto_po2",
                                  "max_po2_exponent": -3}))
  cfgs.append(("quantized_bits", {"bits": 4}))     # alpha None -> TRAINABLE
  group_cases = [([4, 6], [0, 1], [2, 3]), ([2, 4, 6], [1, 2], [2, 2]),
                 ([2, 4, 6, 8], [1, 3], [2, 4]), ([1, 4, 4, 8], [2, 3], 2)]
  for cls, kw in cfgs:
    for shape in shapes:
      if "scale_axis" in kw and kw["scale_axis"] >= len(shape):
        continue
      if "elements_per_scale" in kw and len(shape) < 2:
        continue
      ops = []
      if "alpha" not in kw:
        ops.append({"k": "TRAINABLE", "q": 0})
      sub = 0
      for t in tensors:
        sub += 1
        ops.append({"k": "CALL", "q": 0, "t": t, "sub": sub})
        ops.append({"k": "READ_SCALE", "q": 0})
      ops.append({"k": "SCALED", "q": 0, "t": tensors[0], "kpow": 3})
      ops.append({"k": "SCALED", "q": 0, "t": tensors[2], "kpow": -2})
      ops.append({"k": "FREEZE", "q": 0, "t": tensors[0]})
      ops.append({"k": "FROZEN_OTHER", "q": 0, "t": tensors[2]})
      ops.append({"k": "FROZEN_RESTART", "q": 0, "route": "from_config",
                  "json": True})
      ops.append({"k": "RESTART", "q": 0, "route": "keras", "json": True})
      ops.append({"k": "CALL", "q": 0, "t": tensors[1], "sub": 9})
      ops.append({"k": "FROZEN_CHECK", "q": 0})
      out.append({"label": "directed:%s:%s:rank%d" % (
          cls, json.dumps(kw, sort_keys=True), len(shape)), "seed": 1,
                  "world": {"quantizers": [{"cls": cls, "kw": dict(kw),
                                            "shape": shape}]}, "ops": ops})
  for gi, (shape, ax, eps) in enumerate(group_cases):
    ops = []
    for j, t in enumerate(tensors[:3]):
      ops.append({"k": "CALL", "q": 0, "t": t, "sub": j})
      ops.append({"k": "READ_SCALE", "q": 0})
    out.append({"label": "directed:grouping:%d" % gi, "seed": 1, "world": {
        "quantizers": [{"cls": "quantized_bits", "kw": {
            "bits": 4, "alpha": "auto_po2", "scale_axis": ax,
            "elements_per_scale": eps}, "shape": shape}]}, "ops": ops})
  return out


def simplify(scn):
  qs = scn["world"]["quantizers"]
  for i, s in enumerate(qs):
    for key in sorted(s["kw"]):
      if key == "alpha":
        continue
      c = json.loads(json.dumps(scn))
      del c["world"]["quantizers"][i]["kw"][key]
      yield c
  for i, op in enumerate(scn["ops"]):
    if "t" in op and op["t"]["kind"] != "gauss":
      c = json.loads(json.dumps(scn))
      c["ops"][i]["t"] = {"kind": "gauss", "seed": op["t"]["seed"], "mag": 1.0}
      yield c


def bucket(scn):
  return [(s["cls"], sorted(s["kw"]), len(s["shape"]))
          for s in scn["world"]["quantizers"]]
