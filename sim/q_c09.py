"""C09 - configuration round-trip = crash/restart with only durable state.

Every live quantizer has a never-restarted twin that receives the same
operations.  After a RESTART the live object is what was rebuilt from its own
configuration; from then on every CALL must return bit-identical outputs and
the same exposed scale on both, in either phase, because the uniform seam
feeds both the same draws.
"""
import numpy as np

from . import engine_q as Q
from . import qspecs
from .core import guard, InjectedFault, HarnessError, repo_frames
from .seams import tf_setup

SIMPLE = (int, float, str, bool, type(None), list, tuple)


def attr_diff(a, b):
  """Names of simple attributes that differ between two quantizer objects."""
  tf = tf_setup()
  out = []
  va, vb = _vars(a), _vars(b)
  for k in sorted(set(va) | set(vb)):
    if k in ("built", "var_name", "_use_variables", "use_variables"):
      continue
    x, y = va.get(k, "<absent>"), vb.get(k, "<absent>")
    x, y = _simple(x), _simple(y)
    if x is _SKIP or y is _SKIP:
      continue
    if x != y:
      out.append(k.lstrip("_"))
  return out


_SKIP = object()


def _vars(o):
  d = {}
  for k, v in vars(o).items():
    if k.startswith("_tf_api") or k.startswith("_self_") or k.startswith("_name"):
      continue
    if k in ("_scope_name", "_trackable_children", "_setattr_tracking"):
      continue
    d[k] = v
  return d


def _simple(v):
  tf = tf_setup()
  if isinstance(v, tf.Variable):
    return float(np.asarray(v.numpy()).reshape(-1)[0]) if v.shape.num_elements() == 1 else _SKIP
  if isinstance(v, np.generic):
    return v.item()
  if isinstance(v, np.ndarray):
    return v.tolist()
  if isinstance(v, (int, float)) and not isinstance(v, bool):
    return float(v)
  if isinstance(v, SIMPLE):
    if isinstance(v, tuple):
      return list(v)
    return v
  if tf.is_tensor(v):
    return _SKIP
  return _SKIP


class Oracle(Q.QOracle):
  focus = "c09"
  call_must_succeed = False

  def on_call_exception(self, qi, op, x, exc):
    """C09 is about sameness: a call that raises on the live object must raise
    the same way on the never-restarted twin."""
    w, ctx = self.w, self.ctx
    spec = w.specs[qi]
    try:
      w.call_raw(self.twins[qi], x, op.get("sub", 0), self.ttraced.get(qi))
    except InjectedFault:
      raise
    except Exception as e2:  # pylint: disable=broad-except
      if type(e2) is type(exc):
        ctx.probe("call_raises_on_both")
        return
    if not repo_frames(exc):
      raise HarnessError("call failed outside qkeras: %r" % (exc,))
    ctx.checked()
    lost = attr_diff(w.qs[qi], self.twins[qi])
    ctx.violation("%s|restart-makes-call-raise:%s|lost:%s" % (
        spec["cls"], type(exc).__name__, ",".join(lost) or "?"),
        "after restart q(x) raises %r but the original does not; kw=%r" % (
            exc, spec["kw"]))

  def start(self):
    w = self.w
    self.twins = [Q.build_quantizer(s) for s in w.specs]
    self.ttraced = {}
    self.restarted = [False] * w.n()
    self._registry_check("start")

  def finish(self):
    self._registry_check("end")

  def _registry_check(self, when):
    import qkeras.quantizers as qq
    from qkeras import quantizer_registry as reg
    from qkeras import base_quantizer
    names = dict(reg._QUANTIZERS_REGISTRY._container)
    self.ctx.log("registry", sorted(names))
    for name, cls in sorted(names.items()):
      self.ctx.checked()
      if getattr(cls, "__name__", None) != name:
        self.ctx.violation("registry|name-resolves-to-other:%s" % name,
                           "registry[%s] is %r" % (name, cls))
      if reg.lookup_quantizer(name) is not cls:
        self.ctx.violation("registry|lookup-differs:%s" % name, "lookup")
    for name in qspecs.ALL_CLASSES:
      cls = getattr(qq, name, None)
      if cls is None or names.get(name) is not cls:
        self.ctx.violation("registry|public-class-not-registered:%s" % name,
                           "%s missing from registry (%s)" % (name, when))
    if when == "start":
      self._names0 = names
    elif names != self._names0:
      self.ctx.violation("registry|changed-during-run", "registry mutated")

  def mirror(self, op):
    tf = tf_setup()
    k = op["k"]
    if k == "PHASE":
      return
    t = self.twins[op["q"]]
    if k == "QNOISE":
      Q.apply_qnoise(t, op["f"], op["as"])
      live = self.w.qs[op["q"]]
      if not (isinstance(getattr(t, "qnoise_factor", None), tf.Variable) and
              isinstance(getattr(live, "qnoise_factor", None), tf.Variable)):
        # keep both sides traced or both eager
        self.ttraced.pop(op["q"], None)
        self.w.traced.pop(op["q"], None)
    elif k == "BUILDV":
      if hasattr(t, "qnoise_factor") and not isinstance(t.qnoise_factor,
                                                        tf.Variable):
        t.build(use_variables=True)
    elif k == "TRAINABLE":
      t._set_trainable_parameter()
      self.ttraced.pop(op["q"], None)
    elif k == "TRACE":
      self.ttraced[op["q"]] = tf.function(lambda x, _q=t: _q(x))

  def on_restart(self, qi, op, ok):
    self.ctx.checked()
    if ok:
      self.restarted[qi] = True
      self.ctx.probe("restart_ok")
      # a restart discards the trace of the old object on the live side only
      self.ttraced.pop(qi, None)
    else:
      self.ctx.probe("restart_raised")

  def on_call(self, qi, op, x, y, scale, failed):
    w, ctx = self.w, self.ctx
    spec = w.specs[qi]
    t = self.twins[qi]
    try:
      ty = w.call_raw(t, x, op.get("sub", 0), self.ttraced.get(qi))
    except InjectedFault:
      return
    if failed:
      return
    ts = Q.read_scale(t)
    if not self.restarted[qi]:
      # determinism of the harness itself: twin == live before any restart
      if not (Q.same(y, ty) and Q.same(scale, ts)):
        from .core import HarnessError
        raise HarnessError("twin diverged without a restart: %s %r" % (
            spec["cls"], spec["kw"]))
      return
    ctx.checked()
    if w.phase == 1:
      ctx.probe("compared_in_training_phase")
    if not Q.same(y, ty):
      lost = attr_diff(w.qs[qi], t)
      ctx.violation("%s|restart-changes-output|lost:%s" % (
          spec["cls"], ",".join(lost) or "?"),
          "after restart q(x) differs from the original; differing attributes "
          "%s; kw=%r maxdiff=%g" % (lost, spec["kw"], _maxdiff(y, ty)))
    elif not Q.same(scale, ts):
      lost = attr_diff(w.qs[qi], t)
      ctx.violation("%s|restart-changes-scale|lost:%s" % (
          spec["cls"], ",".join(lost) or "?"),
          "after restart exposed scale differs; kw=%r" % (spec["kw"],))


def _maxdiff(a, b):
  a, b = np.asarray(a, np.float64), np.asarray(b, np.float64)
  if a.shape != b.shape:
    return float("inf")
  return float(np.nanmax(np.abs(a - b))) if a.size else 0.0


# ---------------------------------------------------------------------------
WEIGHTS = {"CALL": 10, "READ_SCALE": 1, "PHASE": 2, "RNG": 1, "QNOISE": 2,
           "BUILDV": 1, "TRAINABLE": 1, "TRACE": 0, "RESTART": 4}

ROUTES = [("from_config", False), ("from_config", True),
          ("get_quantizer", False), ("get_quantizer", True),
          ("keras", False), ("keras", True)]


def directed():
  """Deterministic scenarios: every option probe x every restart route, in
  both phases."""
  out = []
  for label, spec in qspecs.option_probe_specs():
    ops = []
    sub = 1
    tensors = [{"kind": "gauss", "seed": 11, "mag": 1.0},
               {"kind": "mixed", "seed": 12, "mag": 2.0},
               {"kind": "uniform", "seed": 13, "mag": 0.9}]
    for route, js in ROUTES:
      ops.append({"k": "RESTART", "q": 0, "route": route, "json": js,
                  "twice": not js})
      for ph in (0, 1):
        ops.append({"k": "PHASE", "p": ph})
        for t in tensors:
          sub += 1
          ops.append({"k": "CALL", "q": 0, "t": t, "sub": sub})
      ops.append({"k": "PHASE", "p": 0})
    out.append({"label": "directed:" + label, "seed": 1,
                "world": {"quantizers": [spec]}, "ops": ops})
  return out


def generate(rng):
  world = Q.gen_world(rng, "C09", qspecs.ALL_CLASSES)
  n = rng.randrange(8, 30)
  ops = Q.gen_ops(rng, world, WEIGHTS, n)
  # make sure at least one restart is followed by a call
  if not any(o["k"] == "RESTART" for o in ops):
    i = rng.randrange(len(ops))
    ops.insert(i, {"k": "RESTART", "q": rng.randrange(len(world["quantizers"])),
                   "route": rng.pick(["from_config", "get_quantizer", "keras"]),
                   "json": rng.chance(0.5)})
  last_restart = max(i for i, o in enumerate(ops) if o["k"] == "RESTART")
  if not any(o["k"] == "CALL" and o["q"] == ops[last_restart]["q"]
             for o in ops[last_restart:]):
    ops.append({"k": "CALL", "q": ops[last_restart]["q"],
                "t": Q.gen_tensor(rng), "sub": rng.subseed()})
  return {"seed": rng.subseed(), "world": world, "ops": ops}


def simplify(scn):
  """Candidates with a simpler world (used after ddmin)."""
  import json
  qs = scn["world"]["quantizers"]
  for i, s in enumerate(qs):
    for key in sorted(s["kw"]):
      c = json.loads(json.dumps(scn))
      del c["world"]["quantizers"][i]["kw"][key]
      yield c
  for i, op in enumerate(scn["ops"]):
    if op["k"] == "RESTART" and op.get("json"):
      c = json.loads(json.dumps(scn))
      c["ops"][i]["json"] = False
      yield c
    if op["k"] == "CALL" and op["t"]["kind"] != "gauss":
      c = json.loads(json.dumps(scn))
      c["ops"][i]["t"] = {"kind": "gauss", "seed": op["t"]["seed"], "mag": 1.0}
      yield c


# ---------------------------------------------------------------------------
ENGINE = "Q"
LEVEL = "exploration"
RULE = ("scenario = 1-3 quantizers drawn from the option lattice (sim/qspecs.py) + "
        "8-30 seeded ops (CALL/PHASE/RNG/QNOISE/BUILDV/TRAINABLE/TRACE/RESTART) "
        "plus the deterministic sweep {class x option probe} x 6 restart routes x "
        "2 phases; non-trivial = at least one fault (restart, phase flip, rng mode, "
        "variable build, qnoise update) fired AND at least one oracle comparison "
        "ran afterwards; distinct = distinct (op-kind sequence, fired fault kinds, "
        "class/option-key bucket)")
REAL = ["qkeras.quantizers (all classes)", "qkeras.quantizer_registry",
        "tf_keras serialize/deserialize", "TensorFlow kernels"]
STUB = ["tf.random.uniform (seam)", "json file boundary (in-memory dumps/loads)"]


def execute(scn, known=(), stop=True):
  return Q.execute("C09", scn, known, {"C09": Oracle}, stop)


def bucket(scn):
  return [(s["cls"], sorted(s["kw"])) for s in scn["world"]["quantizers"]]
