"""C13 - save / clone / reload preserves predictions (restart with real I/O).

History ops on a generated quantized model; a RESTART rebuilds the model from
durable state only (JSON architecture, the library's clone utility, an HDF5
file on a scratch directory or on a simulated file object under h5py's
file-object driver, a weights file).  After a restart predictions on the probe
batch must be bit-identical and every layer must report the same quantizers;
no custom objects are passed.  Serialisation - whether it succeeds or is made
to fail by the disk - must leave the live model untouched.  The content of a
torn file is not judged (DESIGN 4/C13).
"""
import errno
import json

import numpy as np

from . import engine_m as M
from .core import Ctx, HarnessError, InjectedFault, StopRun, guard, repo_frames
from .seams import SimFile, fresh_session, set_phase, tf_setup


def config_diff(a, b):
  """Cause-level diagnosis: (layer class, differing config keys)."""
  out = []
  la = {l.name: l for l in a.layers}
  for lb in b.layers:
    l = la.get(lb.name)
    if l is None:
      out.append("%s:missing" % type(lb).__name__)
      continue
    def _d(o):
      if hasattr(o, "get_config"):
        return {"class_name": type(o).__name__, "config": o.get_config()}
      if isinstance(o, (np.floating, np.integer)):
        return o.item()
      if isinstance(o, np.ndarray):
        return o.tolist()
      return repr(o)
    try:
      ca = json.loads(json.dumps(l.get_config(), sort_keys=True, default=_d))
      cb = json.loads(json.dumps(lb.get_config(), sort_keys=True, default=_d))
    except Exception:  # pylint: disable=broad-except
      continue
    keys = [k for k in sorted(set(ca) | set(cb)) if ca.get(k) != cb.get(k)]
    if keys:
      sub = []
      for k in keys:
        if isinstance(ca.get(k), dict) and isinstance(cb.get(k), dict) and \
            "config" in ca[k] and "config" in cb[k] and \
            isinstance(ca[k]["config"], dict) and isinstance(cb[k]["config"], dict):
          inner = [kk for kk in sorted(set(ca[k]["config"]) | set(cb[k]["config"]))
                   if ca[k]["config"].get(kk) != cb[k]["config"].get(kk)]
          sub.append("%s(%s).%s" % (k, ca[k].get("class_name"), "+".join(inner)))
        else:
          sub.append(k)
      out.append("%s:%s" % (type(lb).__name__, ",".join(sub)))
  return out


class World:
  def __init__(self, ctx, scn):
    self.ctx = ctx
    self.mspec = scn["world"]
    self.scratch = M.Scratch()
    ok, self.model = guard(ctx, "build-model", M.build_model, self.mspec)
    if not ok:
      raise StopRun()
    self.x = M.probe_batch(self.mspec)
    ok, self.y = guard(ctx, "predict", M.predict, self.model, self.x)
    if not ok:
      raise StopRun()
    self.nwrites = None

  def refresh(self):
    self.y = M.predict(self.model, self.x)

  def check_readonly(self, what, before_w, before_y, weights_only=False):
    ctx = self.ctx
    ctx.checked()
    after_w = M.weights_snapshot(self.model)
    if not M.same_weights(before_w, after_w):
      ctx.violation("read-only|%s|weights-changed" % what,
                    "%s changed the live model's variables" % what)
      return
    if weights_only:
      return
    y = M.predict(self.model, self.x)
    if not np.array_equal(y, before_y, equal_nan=True):
      ctx.violation("read-only|%s|predictions-changed" % what,
                    "%s changed the live model's predictions" % what)


def compare(ctx, w, m2, route):
  ctx.checked()
  y2 = M.predict(m2, w.x)
  layer_types = sorted({type(l).__name__ for l in w.model.layers})
  if not np.array_equal(w.y, y2, equal_nan=True):
    diff = config_diff(w.model, m2)
    if not diff:
      wa, wb = w.model.get_weights(), m2.get_weights()
      if not M.same_weights(wa, wb):
        diff = ["weights-differ"]
    ctx.violation("restart:%s|predictions-differ|%s" % (
        route if not diff else "*", ";".join(diff[:3]) or "config-identical"),
        "predictions after %s differ (max %g); config differences %r; layers %r"
        % (route, float(np.nanmax(np.abs(w.y.astype(np.float64) - y2))),
           diff, layer_types))
    return False
  ra, rb = M.quantizer_report(w.model), M.quantizer_report(m2)
  if ra != rb:
    bad = [a for a, b in zip(ra, rb) if a != b][:2]
    ctx.violation("restart:%s|quantizer-report-differs|%s" % (
        "*", ";".join(sorted({type(w.model.get_layer(n.split("/")[0])).__name__
                              for n, _ in bad}))),
        "layers report different quantizers after %s: %r vs %r" % (
            route, bad, [b for a, b in zip(ra, rb) if a != b][:2]))
    return False
  return True


def apply_op(ctx, w, op):
  tf = tf_setup()
  k = op["k"]
  ctx.log("op", k)
  if k == "PERTURB":
    M.set_seeded_weights(w.model, op["seed"], op.get("scale", 1.0))
    w.refresh()
    ctx.log("y", w.y)
  elif k == "RESTART":
    route = op["route"]
    bw, by = M.weights_snapshot(w.model), w.y
    # the optimizer state is saved too when the model was really trained and
    # has not been rebuilt from JSON since (tf_keras builds deserialised
    # layers outside their name scope, the optimizer slots of two such layers
    # then collide in the HDF5 group whatever the layer classes are)
    with_opt = bool(op.get("with_optimizer")) and getattr(
        w, "fit_done", False) and not getattr(w, "cloned", False)
    if with_opt:
      ctx.probe("saved_with_optimizer_state")
    ok, m2 = guard(ctx, "restart:%s" % route, M.restart_model, w.model, route,
                   w.scratch, None, bool(op.get("compile_load")), with_opt,
                   always=True)
    ctx.fault("restart_" + route)
    w.check_readonly("restart:" + route, bw, by,
                     weights_only=bool(op.get("no_compare")))
    if not ok:
      return
    if op.get("no_compare"):
      # output is random by design (bernoulli): only the restart is judged
      ctx.probe("restart_without_prediction_compare")
      return
    if compare(ctx, w, m2, route) and op.get("replace"):
      w.model = m2
      w.cloned = True
      w.fit_done = False
      ctx.probe("continued_on_restarted_model")
  elif k == "TRAIN_CALLS":
    # forward passes with training=True: moves the state that is not touched
    # by set_weights (QAdaptiveActivation EMA range and step, BN statistics,
    # folded layers' step clock)
    g = np.random.Generator(np.random.PCG64(int(op.get("seed", 0))))
    for _ in range(int(op.get("n", 2))):
      xb = g.standard_normal((4,) + M.INPUTS[w.mspec["input"]]).astype(
          np.float32) * float(op.get("mag", 2.0))
      ok, _ = guard(ctx, "training-call", lambda: w.model(tf.constant(xb),
                                                         training=True))
      if not ok:
        return
    ctx.fault("training_calls")
    set_phase(0)
    w.refresh()
  elif k == "COMPILE":
    import tf_keras as keras
    w.model.compile(optimizer=keras.optimizers.SGD(0.01), loss="mse")
    ctx.fault("compile")
  elif k == "FITSTEP":
    # a real optimizer step (the optimizer then owns a slot per trainable
    # variable of the model)
    import tf_keras as keras
    g = np.random.Generator(np.random.PCG64(int(op.get("seed", 0))))
    n = int(op.get("n", 1))
    xb = g.standard_normal((2 * n,) + M.INPUTS[w.mspec["input"]]).astype(
        np.float32)
    yb = g.standard_normal((2 * n,) + tuple(
        w.model.output_shape[1:])).astype(np.float32)
    opt = keras.optimizers.Adam(1e-3) if op.get("adam") else \
        keras.optimizers.SGD(1e-3, momentum=0.5)
    w.model.compile(optimizer=opt, loss="mse")
    # whether a model can be TRAINED is not this property's business: a fit
    # that raises is counted and the history goes on without it
    try:
      w.model.fit(xb, yb, batch_size=2, epochs=1, shuffle=False, verbose=0)
      ok = True
    except Exception:  # pylint: disable=broad-except
      ok = False
      ctx.probe("fit_raised_not_judged")
    ctx.fault("real_fit_step")
    set_phase(0)
    if not ok:
      w.refresh()
      return
    w.fit_done = True
    w.refresh()
  elif k == "READONLY":
    bw, by = M.weights_snapshot(w.model), w.y
    api = op["api"]
    if api == "get_config":
      guard(ctx, "get_config", w.model.get_config, always=True)
    elif api == "to_json":
      guard(ctx, "to_json", w.model.to_json, always=True)
    elif api == "layer_configs":
      for l in w.model.layers:
        guard(ctx, "layer.get_config:%s" % type(l).__name__, l.get_config,
              always=True)
    ctx.fault("serialise_" + api)
    w.check_readonly(api, bw, by)
  elif k == "SAVE_FAULT":
    save_fault(ctx, w, op)
  elif k == "EXPORT":
    from qkeras import utils as qu
    ok, _ = guard(ctx, "export", qu.model_save_quantized_weights, w.model)
    ctx.fault("export_before_restart")
    w.refresh()
  elif k == "SCHED":
    from . import p_c07
    # the schedule always completes (factor 1 from step 2 on): a model in the
    # middle of a noise schedule is a transient training state whose factor
    # lives neither in the weights nor (for string-configured activations) in
    # the architecture; the property speaks of trained models
    cbspec = {"start": 0, "finish": 2, "freq_type": "step", "update_freq": 1,
              "initial": 0, "exponent": 2.0}
    cb = p_c07.build_callback(cbspec)
    cb.set_model(w.model)

    class _O:
      def event(self, where):
        pass

      def observe(self, where):
        pass
    st = {"probe": w.x}
    # every quantized layer (QActivation configured with a string included)
    # serialises its live quantizer objects, so the schedule may also be
    # interrupted half-way
    steps = 3 + int(op.get("steps", 3))
    if op.get("stop_mid"):
      cbspec = dict(cbspec, start=0, finish=6, use_ste=bool(op.get(
          "use_ste", True)))
      cb = p_c07.build_callback(cbspec)
      cb.set_model(w.model)
      steps = 1 + int(op.get("steps", 3)) % 4
      ctx.fault("scheduler_interrupted_mid_schedule")
    p_c07.run_fit_sim(ctx, w.model, cb, cbspec, _O(), {
        "epochs": 1, "steps": steps}, st)
    ctx.fault("scheduler_left_variable_knobs")
    set_phase(0)
    w.refresh()
  else:
    raise HarnessError("op " + k)


def _with_optimizer(w):
  # optimizer state goes into the file when the model was really trained and
  # has not been rebuilt from JSON since (see the RESTART op)
  return bool(getattr(w, "fit_done", False)) and not getattr(w, "cloned", False)


def count_writes(w):
  import h5py
  sf = SimFile()
  with h5py.File(sf, "w") as f:
    w.model.save(f, include_optimizer=_with_optimizer(w))
  return sf.writes, bytes(sf.buf)


def save_fault(ctx, w, op):
  """Disk fault during model.save on the simulated file."""
  tf = tf_setup()
  import h5py
  from qkeras import utils as qu
  bw, by = M.weights_snapshot(w.model), w.y
  try:
    n, good = count_writes(w)
  except Exception as e:  # pylint: disable=broad-except
    if repo_frames(e):
      ctx.violation("save|raises:%s" % type(e).__name__, str(e)[:300])
      return
    raise
  at = 1 + int(op["at"]) % max(1, n)
  kind = op["kind"]
  kw = {}
  if kind == "enospc":
    kw = {"fail_at_write": at, "err": errno.ENOSPC}
  elif kind == "eio":
    kw = {"fail_at_write": at, "err": errno.EIO}
  elif kind == "short":
    kw = {"short_at_write": at}
  elif kind == "crash":
    kw = {"crash_at_write": at, "keep_unflushed": bool(op.get("keep"))}
  sf = SimFile(**kw)
  raised = None
  try:
    f = h5py.File(sf, "w")
    try:
      w.model.save(f, include_optimizer=_with_optimizer(w))
    finally:
      try:
        f.close()
      except Exception:  # pylint: disable=broad-except
        pass
  except (OSError, InjectedFault, RuntimeError, ValueError, KeyError) as e:
    raised = e
  for fk in sf.fired:
    ctx.fault("disk_" + fk + ("_" + kind if fk == "write_err" else ""))
  if at == n:
    ctx.probe("disk_fault_at_last_write")
  if at == 1:
    ctx.probe("disk_fault_at_first_write")
  ctx.probe("save_raised" if raised is not None else "save_did_not_raise")
  # (i) the live model is untouched whatever happened to the file
  w.check_readonly("save-with-disk-" + kind, bw, by)
  # torn content: outcome only counted, never judged
  data = sf.surviving() if kind == "crash" else bytes(sf.buf)
  if raised is not None or kind in ("short", "crash"):
    # The torn file is NOT opened: what HDF5 does with a truncated image is
    # not qkeras' business (the property says nothing about it) and the HDF5
    # library can spin forever on one (seen in the thorough tier: h5py
    # attrs.__getitem__ never returned for 3 of ~5 400 torn images, which the
    # per-run watchdog turned into a dead worker).
    ctx.probe("torn_file_left_%s" % ("empty" if not data else "partial"))
  # (ii) a subsequent complete save round-trips
  ok, m2 = guard(ctx, "restart:h5_fileobj", M.restart_model, w.model,
                 "h5_fileobj", w.scratch, always=True)
  if ok:
    compare(ctx, w, m2, "h5_fileobj-after-disk-fault")


def execute(scn, known=(), stop=True):
  ctx = Ctx("C13", known, stop_on_violation=stop)
  fresh_session(int(scn.get("seed", 0)))
  w = None
  try:
    w = World(ctx, scn)
    ctx.log("y0", w.y)
    for i, op in enumerate(scn["ops"]):
      ctx.step = i
      apply_op(ctx, w, op)
    ctx.step = len(scn["ops"])
  except StopRun:
    pass
  finally:
    if w is not None:
      w.scratch.close()
    set_phase(0)
  return ctx.result()


# ---------------------------------------------------------------------------
ENGINE = "M"
LEVEL = "exploration"
RULE = ("scenario = generated quantized model (1-5 layers over the custom-"
        "object table: QDense, QConv1D/2D, QDepthwiseConv2D, QSeparableConv1D/2D,"
        " QSimpleRNN/QLSTM/QGRU, QBidirectional, QBatchNormalization, "
        "QAveragePooling2D, QGlobalAveragePooling2D, QActivation, QScaleShift; "
        "quantizer options from the C09 lattice; sequential, functional and "
        "branched) + seeded ops (PERTURB / RESTART via json|clone|h5_path|"
        "h5_fileobj|weights_file / COMPILE / READONLY / SAVE_FAULT enospc|eio|"
        "short|crash at the n-th write / EXPORT / SCHED); non-trivial = a fault "
        "(restart, disk fault, export, scheduler, compile) fired and an oracle "
        "check ran afterwards; distinct = distinct (op-kind sequence, fired "
        "fault kinds, layer-class/quantizer-class bucket)")
REAL = ["qkeras layers and quantizers", "qkeras.utils clone_model / "
        "quantized_model_from_json / load_qmodel / model_save_quantized_weights",
        "tf_keras saving (JSON, HDF5)", "h5py (file-object driver and real "
        "files in a scratch directory)"]
STUB = ["disk for h5_fileobj routes: SimFile (write/flush granularity as seen "
        "by h5py; crash = only flushed bytes survive)",
        "training loop in SCHED (callback events only)"]
ROUTE_W = [("json", 3), ("clone", 3), ("h5_path", 1.5), ("h5_fileobj", 3),
           ("weights_file", 1)]


def generate(rng):
  world = M.gen_model(rng, allow=["adaptive"])
  ops = []
  n = rng.randrange(2, 7)
  for _ in range(n):
    k = rng.wpick([("RESTART", 6), ("PERTURB", 2), ("READONLY", 1.5),
                   ("TRAIN_CALLS", 1.2),
                   ("SAVE_FAULT", 2.5), ("EXPORT", 0.8), ("SCHED", 1.0),
                   ("COMPILE", 0.5), ("FITSTEP", 0.6)])
    op = {"k": k}
    if k == "RESTART":
      op["route"] = rng.wpick(ROUTE_W)
      op["replace"] = rng.chance(0.3)
      op["compile_load"] = rng.chance(0.3)
      op["with_optimizer"] = rng.chance(0.4)
    elif k == "FITSTEP":
      op["seed"] = rng.subseed()
      op["n"] = rng.randrange(1, 3)
      op["adam"] = rng.chance(0.5)
    elif k == "PERTURB":
      op["seed"] = rng.subseed()
      op["scale"] = rng.pick([1.0, 0.2, 3.0])
    elif k == "READONLY":
      op["api"] = rng.pick(["get_config", "to_json", "layer_configs"])
    elif k == "SAVE_FAULT":
      op["kind"] = rng.pick(["enospc", "eio", "short", "crash"])
      op["at"] = rng.randrange(0, 400) if rng.chance(0.8) else rng.pick([0, -1])
      op["keep"] = rng.chance(0.5)
    elif k == "TRAIN_CALLS":
      op["seed"] = rng.subseed()
      op["n"] = rng.randrange(1, 4)
      op["mag"] = rng.pick([0.5, 2.0, 6.0])
    elif k == "SCHED":
      op["steps"] = rng.randrange(1, 5)
      op["stop_mid"] = rng.chance(0.6)
      op["use_ste"] = rng.chance(0.6)
    ops.append(op)
  if not any(o["k"] in ("RESTART", "SAVE_FAULT") for o in ops):
    ops.append({"k": "RESTART", "route": rng.wpick(ROUTE_W)})
  return {"seed": rng.subseed(), "world": world, "ops": ops}


def _single(layer, kind):
  return {"input": kind, "layers": [layer] + ([{"t": "Flatten"}] if kind != "vec"
                                              else []), "wseed": 5}


def directed():
  """One model per layer class x a few quantizer choices x every route."""
  qb = {"cls": "quantized_bits", "kw": {"bits": 4, "integer": 0, "symmetric": 1}}
  auto = {"cls": "quantized_bits", "kw": {"bits": 4, "alpha": "auto_po2"}}
  po2 = {"cls": "quantized_po2", "kw": {"bits": 4}}
  relu = {"cls": "quantized_relu", "kw": {"bits": 4, "integer": 1}}
  qb6 = {"cls": "quantized_bits", "kw": {"bits": 6, "integer": 1}}
  qb8 = {"cls": "quantized_bits", "kw": {"bits": 8, "integer": 2}}
  layers = [
      ("vec", {"t": "QDense", "units": 3, "use_bias": True, "kq": qb, "bq": qb,
               "aq": relu}),
      ("vec", {"t": "QDense", "units": 3, "use_bias": False, "kq": auto}),
      ("vec", {"t": "QDense", "units": 3, "use_bias": True,
               "kq": {"cls": "binary", "kw": {"alpha": "auto"}}, "bq": po2}),
      ("vec", {"t": "QDense", "units": 3, "use_bias": True,
               "kq": {"cls": "ternary", "kw": {"alpha": "auto_po2"}}}),
      ("vec", {"t": "QDense", "units": 3, "use_bias": True,
               "kq": {"cls": "quantized_linear", "kw": {"bits": 4}}}),
      ("vec", {"t": "QActivation", "aq": {"cls": "quantized_hswish",
                                          "kw": {"bits": 6, "integer": 2}}}),
      ("vec", {"t": "QActivation", "aq": {"cls": "quantized_linear",
                                          "kw": {"bits": 6, "integer": 2}}}),
      ("vec", {"t": "QActivation", "aq": {"str": "quantized_relu(4,1)"}}),
      ("vec", {"t": "QActivation", "aq": {"cls": "quantized_relu", "kw": {
          "bits": 4, "integer": 1, "is_quantized_clip": False,
          "relu_upper_bound": 0.75}}}),
      ("vec", {"t": "QDense", "units": 3, "use_bias": True, "kq": {
          "cls": "quantized_bits", "kw": {"bits": 4, "alpha": "auto",
                                          "scale_axis": 0}}}),
      ("vec", {"t": "QAdaptiveActivation", "act": "quantized_relu", "bits": 6,
               "per_channel": False, "qdelay": 1}),
      ("vec", {"t": "QAdaptiveActivation", "act": "quantized_bits", "bits": 6,
               "per_channel": True, "qdelay": 2}),
      ("vec", {"t": "QAdaptiveActivation", "act": "quantized_relu", "bits": 6,
               "per_channel": False, "qdelay": 1, "ema_decay": 0.5}),
      ("vec", {"t": "QAdaptiveActivation", "act": "quantized_bits", "bits": 4,
               "per_channel": True, "qdelay": 1, "ema_decay": 0.0,
               "po2_rounding": True}),
      ("vec", {"t": "QAdaptiveActivation", "act": "quantized_relu", "bits": 6,
               "per_channel": False, "qdelay": 1, "ema_decay": 0.9,
               "relu_upper_bound": 0.75, "relu_neg_slope": 0.125}),
      ("img", {"t": "QAdaptiveActivation", "act": "quantized_relu", "bits": 8,
               "per_channel": True, "qdelay": 2, "ema_decay": 0.5,
               "ema_freeze_delay": 2}),
      ("vec", {"t": "QBatchNormalization", "center": True, "scale": True,
               "defaults": True}),
      ("vec", {"t": "QBatchNormalization", "center": False, "scale": True,
               "defaults": True}),
      ("img", {"t": "QConv2D", "filters": 2, "kernel": 2, "strides": 1,
               "padding": "valid", "use_bias": True, "kq": qb, "bq": qb}),
      ("img", {"t": "QConv2D", "filters": 2, "kernel": 2, "strides": 2,
               "padding": "same", "use_bias": False, "kq": auto, "aq": relu}),
      ("img", {"t": "QConv2D", "filters": 2, "kernel": 3, "strides": 1,
               "padding": "same", "use_bias": True, "kq": qb, "bq": qb,
               "mask": True}),
      ("img", {"t": "QDepthwiseConv2D", "kernel": 2, "strides": 1,
               "padding": "same", "depth_multiplier": 2, "use_bias": True,
               "dq": qb, "bq": qb}),
      ("img", {"t": "QSeparableConv2D", "filters": 2, "kernel": 2,
               "padding": "valid", "use_bias": True, "dq": qb, "pq": po2,
               "bq": qb}),
      ("img", {"t": "QAveragePooling2D", "pool": 2, "avq": {
          "cls": "quantized_bits", "kw": {"bits": 8}}, "aq": relu}),
      ("img", {"t": "QGlobalAveragePooling2D", "avq": {
          "cls": "quantized_bits", "kw": {"bits": 8}}, "aq": None}),
      ("img", {"t": "QScaleShift", "use_bias": True, "wq": qb, "bq": qb}),
      ("img", {"t": "QConv2DBatchnorm", "filters": 2, "kernel": 2,
               "padding": "valid", "use_bias": True, "kq": qb, "bq": qb}),
      ("img", {"t": "QDepthwiseConv2DBatchnorm", "kernel": 2,
               "padding": "valid", "use_bias": True, "dq": qb, "bq": qb}),
      ("seq", {"t": "QConv1D", "filters": 2, "kernel": 2, "padding": "causal",
               "use_bias": True, "kq": qb, "bq": qb}),
      ("seq", {"t": "QSeparableConv1D", "filters": 2, "kernel": 2,
               "padding": "same", "use_bias": True, "dq": qb, "pq": qb,
               "bq": qb}),
      ("seq", {"t": "QSimpleRNN", "units": 2, "return_sequences": False,
               "use_bias": True, "kq": qb, "rq": qb, "bq": qb, "sq": qb}),
      ("seq", {"t": "QLSTM", "units": 2, "return_sequences": True,
               "use_bias": True, "kq": qb, "rq": po2, "bq": qb, "sq": None}),
      ("seq", {"t": "QGRU", "units": 2, "return_sequences": False,
               "use_bias": True, "kq": qb, "rq": qb, "bq": qb, "sq": None}),
      ("seq", {"t": "QLSTM", "units": 2, "return_sequences": False,
               "use_bias": True, "kq": qb, "rq": qb, "bq": qb, "sq": None,
               "bidir": True}),
      # the quantized cells inside a stock keras RNN layer, every role with a
      # different quantizer
      ("seq", {"t": "QSimpleRNN", "units": 2, "return_sequences": False,
               "use_bias": True, "kq": qb, "rq": po2, "bq": qb6, "sq": qb8,
               "as_cell": True}),
      ("seq", {"t": "QLSTM", "units": 2, "return_sequences": True,
               "use_bias": True, "kq": qb, "rq": po2, "bq": qb6, "sq": qb8,
               "as_cell": True}),
      ("seq", {"t": "QGRU", "units": 2, "return_sequences": False,
               "use_bias": True, "kq": qb, "rq": po2, "bq": qb6, "sq": qb8,
               "as_cell": True}),
      ("seq", {"t": "QLSTM", "units": 2, "return_sequences": False,
               "use_bias": True, "kq": qb, "rq": qb6, "bq": None, "sq": None,
               "as_cell": True}),
      # quantized activations of recurrent layers (string and object forms)
      ("seq", {"t": "QLSTM", "units": 2, "return_sequences": False,
               "use_bias": True, "kq": qb, "rq": qb, "bq": qb, "sq": None,
               "act": {"str": "quantized_tanh(4)"},
               "ract": {"cls": "quantized_sigmoid", "kw": {"bits": 6}}}),
      ("seq", {"t": "QGRU", "units": 2, "return_sequences": True,
               "use_bias": True, "kq": qb, "rq": qb, "bq": qb, "sq": None,
               "act": {"cls": "quantized_tanh", "kw": {"bits": 6}},
               "ract": {"str": "quantized_sigmoid(4)"}, "bidir": True}),
      ("seq", {"t": "QSimpleRNN", "units": 2, "return_sequences": False,
               "use_bias": True, "kq": qb, "rq": qb, "bq": qb, "sq": None,
               "act": {"str": "quantized_relu(4,1)"}, "as_cell": True}),
      # partially / not quantized recurrent layers (each role None in turn)
      ("seq", {"t": "QGRU", "units": 2, "return_sequences": False,
               "use_bias": True, "kq": None, "rq": None, "bq": None,
               "sq": None}),
      ("seq", {"t": "QGRU", "units": 2, "return_sequences": False,
               "use_bias": True, "kq": qb, "rq": None, "bq": None, "sq": qb}),
      ("seq", {"t": "QLSTM", "units": 2, "return_sequences": False,
               "use_bias": True, "kq": None, "rq": qb, "bq": None,
               "sq": None}),
      ("seq", {"t": "QSimpleRNN", "units": 2, "return_sequences": True,
               "use_bias": True, "kq": None, "rq": None, "bq": qb,
               "sq": None}),
  ]
  out = []
  for kind, l in layers:
    ops = [{"k": "READONLY", "api": "to_json"}]
    for r in M.ROUTES:
      ops.append({"k": "RESTART", "route": r})
    ops.append({"k": "PERTURB", "seed": 3, "scale": 2.0})
    if l["t"] in ("QAdaptiveActivation", "QBatchNormalization",
                  "QConv2DBatchnorm", "QDepthwiseConv2DBatchnorm"):
      ops.append({"k": "TRAIN_CALLS", "seed": 5, "n": 3, "mag": 3.0})
      for r in M.ROUTES:
        ops.append({"k": "RESTART", "route": r})
    ops.append({"k": "RESTART", "route": "clone", "replace": True})
    ops.append({"k": "RESTART", "route": "h5_fileobj"})
    out.append({"label": "directed:%s:%s" % (l["t"], json.dumps(
        {k: (v.get("cls", v.get("str")) if isinstance(v, dict) else v)
         for k, v in l.items() if k in ("kq", "dq", "aq", "bidir", "as_cell",
                                        "rq", "sq", "mask")},
        sort_keys=True)), "seed": 1, "world": _single(l, kind), "ops": ops})
  qd = {"t": "QDense", "units": 3, "use_bias": True, "kq": qb, "bq": qb}
  ada = {"t": "QAdaptiveActivation", "act": "quantized_relu", "bits": 6,
         "per_channel": False, "qdelay": 1, "ema_decay": 0.5}
  for adam in (False, True):
    out.append({"label": "directed:two-adaptive-activations-trained:%s" % (
        "adam" if adam else "sgd"), "seed": 1,
                "world": {"input": "vec", "wseed": 6, "out": "dense",
                          "layers": [qd, ada, dict(qd), dict(ada)]},
                "ops": [{"k": "FITSTEP", "seed": 3, "n": 2, "adam": adam},
                        {"k": "RESTART", "route": "h5_path",
                         "with_optimizer": True},
                        {"k": "RESTART", "route": "h5_fileobj",
                         "with_optimizer": True, "compile_load": True},
                        {"k": "RESTART", "route": "clone"}]})
  # every layer class with STRING-configured quantizers in every role, after an
  # interrupted noise schedule changed the live quantizer objects: the layer
  # config must describe the live objects, not the constructor arguments
  S = {"str": "quantized_bits(4,0,1,alpha=1.0)"}
  S6 = {"str": "quantized_bits(6,2,1)"}
  SA = {"str": "quantized_relu(4,1)"}
  string_layers = [
      ("vec", {"t": "QActivation", "aq": {"str": "quantized_bits(4,0,1)"}}),
      ("vec", {"t": "QActivation", "aq": SA}),
      ("vec", {"t": "QDense", "units": 3, "use_bias": True, "kq": S, "bq": S6,
               "aq": SA}),
      ("img", {"t": "QConv2D", "filters": 2, "kernel": 2, "strides": 1,
               "padding": "same", "use_bias": True, "kq": S, "bq": S6,
               "aq": SA}),
      ("img", {"t": "QDepthwiseConv2D", "kernel": 2, "strides": 1,
               "padding": "same", "depth_multiplier": 1, "use_bias": True,
               "dq": S, "bq": S6}),
      ("img", {"t": "QSeparableConv2D", "filters": 2, "kernel": 2,
               "padding": "same", "use_bias": True, "dq": S, "pq": S, "bq": S6}),
      ("seq", {"t": "QConv1D", "filters": 2, "kernel": 2, "padding": "same",
               "use_bias": True, "kq": S, "bq": S6}),
      ("seq", {"t": "QSeparableConv1D", "filters": 2, "kernel": 2,
               "padding": "same", "use_bias": True, "dq": S, "pq": S,
               "bq": S6}),
      ("seq", {"t": "QSimpleRNN", "units": 2, "return_sequences": False,
               "use_bias": True, "kq": S, "rq": S, "bq": S6, "sq": S6}),
      ("seq", {"t": "QLSTM", "units": 2, "return_sequences": False,
               "use_bias": True, "kq": S, "rq": S, "bq": S6, "sq": S6}),
      ("seq", {"t": "QGRU", "units": 2, "return_sequences": False,
               "use_bias": True, "kq": S, "rq": S, "bq": S6, "sq": S6}),
      ("seq", {"t": "QLSTM", "units": 2, "return_sequences": False,
               "use_bias": True, "kq": S, "rq": S, "bq": S6, "sq": None,
               "bidir": True}),
      ("img", {"t": "QAveragePooling2D", "pool": 2, "avq": S6, "aq": SA}),
      ("img", {"t": "QGlobalAveragePooling2D", "avq": S6, "aq": SA}),
      ("img", {"t": "QScaleShift", "use_bias": True, "wq": S, "bq": S6}),
      ("vec", {"t": "QBatchNormalization", "center": True, "scale": True,
               "gq": S6, "beq": S6, "mq": S6,
               "vq": {"str": "quantized_bits(6,2,1,keep_negative=False)"}}),
  ]
  for kind, l in string_layers:
    for ste in (True, False):
      out.append({"label": "directed:string-quantizers-after-interrupted-"
                           "schedule:%s%s:ste%d" % (
                               l["t"], ":bidir" if l.get("bidir") else "", ste),
                  "seed": 1, "world": _single(l, kind), "ops": [
                      {"k": "SCHED", "steps": 2, "stop_mid": True,
                       "use_ste": ste},
                      {"k": "RESTART", "route": "json"},
                      {"k": "RESTART", "route": "h5_fileobj"}]})
  # every quantizer class of the custom-object table inside a layer config
  qclasses = [
      ("quantized_bits", {"bits": 4, "integer": 1}),
      ("quantized_linear", {"bits": 4, "integer": 1}),
      ("quantized_hswish", {"bits": 6, "integer": 2}),
      ("bernoulli", {}), ("ternary", {}), ("stochastic_ternary", {
          "alpha": "auto"}), ("binary", {}), ("stochastic_binary", {}),
      ("quantized_relu", {"bits": 4, "integer": 1}),
      ("quantized_ulaw", {"bits": 4, "integer": 1}),
      ("quantized_tanh", {"bits": 4}), ("quantized_sigmoid", {"bits": 4}),
      ("quantized_po2", {"bits": 4}), ("quantized_relu_po2", {"bits": 4}),
  ]
  for qc, kw in qclasses:
    ops = [{"k": "RESTART", "route": r, "no_compare": qc == "bernoulli"}
           for r in ("json", "clone", "h5_fileobj")]
    out.append({"label": "directed:quantizer-class:%s" % qc, "seed": 1,
                "world": _single({"t": "QActivation",
                                  "aq": {"cls": qc, "kw": kw}}, "vec"),
                "ops": ops})
  # disk faults at every 7th write of one model, all kinds
  dense = _single(layers[0][1], "vec")
  ops = []
  for kind in ("enospc", "eio", "short", "crash"):
    for at in (0, 1, 5, 12, 20, 33, -1):
      ops.append({"k": "SAVE_FAULT", "kind": kind, "at": at, "keep": at % 2 == 0})
  out.append({"label": "directed:disk-faults", "seed": 1, "world": dense,
              "ops": ops})
  out.append({"label": "directed:scheduler-then-restart", "seed": 1,
              "world": dense, "ops": [{"k": "SCHED", "steps": 2}] + [
                  {"k": "RESTART", "route": r} for r in M.ROUTES]})
  sdense = _single({"t": "QDense", "units": 3, "use_bias": True,
                    "kq": {"str": "quantized_bits(4,0,1)"},
                    "bq": {"str": "quantized_bits(6,2,1)"},
                    "aq": {"str": "quantized_relu(4,1)"}}, "vec")
  for ste in (True, False):
    out.append({"label": "directed:scheduler-interrupted-string-quantizers:"
                         "ste%d" % ste, "seed": 1, "world": sdense,
                "ops": [{"k": "SCHED", "steps": 2, "stop_mid": True,
                         "use_ste": ste}] + [
                             {"k": "RESTART", "route": r} for r in M.ROUTES]})
  out.append({"label": "directed:export-then-restart", "seed": 1,
              "world": dense, "ops": [{"k": "EXPORT"}] + [
                  {"k": "RESTART", "route": r} for r in M.ROUTES]})
  return out


def simplify(scn):
  ls = scn["world"]["layers"]
  for i in range(len(ls)):
    if len(ls) > 1:
      c = json.loads(json.dumps(scn))
      del c["world"]["layers"][i]
      yield c
  for i, l in enumerate(ls):
    for key in ("kq", "bq", "aq", "dq", "pq", "rq", "sq", "avq", "wq"):
      if l.get(key) is not None:
        c = json.loads(json.dumps(scn))
        c["world"]["layers"][i][key] = None
        if key == "aq" and l["t"] == "QActivation":
          continue
        if key in ("wq",):
          continue
        yield c
      if isinstance(l.get(key), dict) and l[key].get("kw"):
        for kk in sorted(l[key]["kw"]):
          c = json.loads(json.dumps(scn))
          del c["world"]["layers"][i][key]["kw"][kk]
          yield c
  for key in ("branch", "sequential"):
    if scn["world"].get(key):
      c = json.loads(json.dumps(scn))
      del c["world"][key]
      yield c
  for i, op in enumerate(scn["ops"]):
    if op["k"] == "RESTART" and op["route"] != "json":
      c = json.loads(json.dumps(scn))
      c["ops"][i]["route"] = "json"
      yield c


def bucket(scn):
  out = []
  for l in scn["world"]["layers"]:
    qs = sorted(str((l.get(k) or {}).get("cls", (l.get(k) or {}).get("str")))
                for k in ("kq", "bq", "aq", "dq", "pq", "rq", "sq")
                if l.get(k))
    out.append((l["t"], qs, bool(l.get("bidir"))))
  return [scn["world"]["input"], out, bool(scn["world"].get("sequential")),
          bool(scn["world"].get("branch"))]
