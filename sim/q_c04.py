"""C04 - binary / ternary codes and their exposed scale, under call histories.

`quantizer.scale` is state written as a side effect of every call and read
later by other parties (get_weight_scale, the hardware export).  A quantizer
object is legitimately shared by several callers.  The oracle is evaluated
after every CALL with the scale exposed right after that call, READ_SCALE must
return exactly the value recorded after the most recent call (whoever made
it), and repeating a call with the same tensor must be bit-identical
regardless of what happened in between (other callers, phase flips, failed
draws).  Stochastic classes are judged in inference phase (C08 judges their
training phase).
"""
import json

import numpy as np

from . import engine_q as Q
from . import qspecs
from .core import HarnessError

CLASSES = ["binary", "ternary", "stochastic_binary", "stochastic_ternary"]
EPS = 1e-7


def group_ids(shape, scale_axis, eps):
  """Integer group id per element: elements of one group share one scale."""
  rank = len(shape)
  idx = np.indices(shape)
  if rank == 1:
    return np.arange(shape[0])
  if scale_axis is None:
    axes = [rank - 1]
    per = [1]
  elif isinstance(scale_axis, int):
    axes = [scale_axis]
    per = [eps if isinstance(eps, int) else 1]
  else:
    axes = list(scale_axis)
    if eps is None:
      per = [1] * len(axes)
    elif isinstance(eps, int):
      per = [eps] * len(axes)
    else:
      per = list(eps)
  gid = np.zeros(shape, dtype=np.int64)
  for a, e in zip(axes, per):
    n = shape[a] // e
    gid = gid * n + idx[a] // e
  return gid


def ls_scale(x64, code, gid):
  """Least-squares optimum sum(x*c)/sum(c*c) per group, broadcast back."""
  g = gid.reshape(-1)
  n = int(g.max()) + 1
  num = np.bincount(g, weights=(x64 * code).reshape(-1), minlength=n)
  den = np.bincount(g, weights=(code * code).reshape(-1), minlength=n)
  cnt = np.bincount(g, minlength=n)
  # the implementation uses means and adds K.epsilon() to the denominator
  ls = (num / cnt) / (den / cnt + EPS)
  return ls[g].reshape(x64.shape), (den[g] > 0).reshape(x64.shape)


class Oracle(Q.QOracle):
  focus = "c04"

  def start(self):
    self.repeat = {}
    self.epoch = [0] * self.w.n()
    self.alpha_now = [s["kw"].get("alpha") for s in self.w.specs]

  def mirror(self, op):
    if op["k"] == "TRAINABLE":
      qi = op["q"]
      if self.alpha_now[qi] is None:
        self.alpha_now[qi] = "auto_po2"
        self.epoch[qi] += 1

  def on_restart(self, qi, op, ok):
    # last-call state is not durable
    self.w.last.pop(qi, None)

  def on_read_scale(self, qi, s):
    w, ctx = self.w, self.ctx
    last = w.last.get(qi)
    if last is None:
      return
    ctx.checked()
    ctx.probe("read_scale_checked")
    if not Q.same(s, last["scale"]):
      ctx.violation("%s|read-scale-not-last-call" % w.specs[qi]["cls"],
                    "scale read later differs from the scale exposed by the "
                    "most recent call; kw=%r" % (w.specs[qi]["kw"],))

  def on_call(self, qi, op, x, y, scale, failed):
    w, ctx = self.w, self.ctx
    spec = w.specs[qi]
    c, kw = spec["cls"], spec["kw"]
    if failed:
      ctx.probe("call_failed_by_injected_draw")
      return
    stochastic_now = w.phase == 1 and (
        c in ("stochastic_binary", "stochastic_ternary") or
        kw.get("use_stochastic_rounding"))
    if stochastic_now:
      ctx.probe("training_phase_not_judged_here")
      return
    if isinstance(scale, str):
      return
    alpha = self.alpha_now[qi]
    ctx.checked()
    if not np.isfinite(y).all():
      ctx.violation("%s|non-finite-output" % c, "kw=%r" % (kw,))
      return
    if c in ("binary", "stochastic_binary"):
      msg = self._binary(spec, alpha, x, y, scale)
    else:
      msg = self._ternary(spec, alpha, x, y, scale)
    if msg:
      ctx.violation("%s|%s" % (c, msg[0]), "%s; kw=%r alpha_now=%r shape=%r" % (
          msg[1], kw, alpha, list(x.shape)))
      return
    # history: same tensor -> bit-identical output and scale
    key = (qi, self.epoch[qi], json.dumps(op["t"], sort_keys=True))
    prev = self.repeat.get(key)
    if prev is None:
      self.repeat[key] = (y.copy(), None if scale is None else np.copy(scale))
    else:
      ctx.checked()
      ctx.probe("repeat_call_compared")
      if not (Q.same(prev[0], y) and Q.same(prev[1], scale)):
        ctx.violation("%s|repeat-call-differs" % c,
                      "same tensor, same object: output or scale changed "
                      "between two calls; kw=%r" % (kw,))

  # ------------------------------------------------------------------
  def _scale_array(self, scale, shape):
    s = np.asarray(1.0 if scale is None else scale, np.float64)
    try:
      return np.broadcast_to(s, shape)
    except ValueError:
      return None

  def _binary(self, spec, alpha, x, y, scale):
    kw = spec["kw"]
    x64, y64 = x.astype(np.float64), y.astype(np.float64)
    s = self._scale_array(scale, x.shape)
    if s is None:
      return ("scale-shape", "scale of shape %r does not broadcast to %r" % (
          np.shape(scale), x.shape))
    code = np.where(x64 < 0, -1.0, 1.0)
    if kw.get("use_01"):
      code = (code + 1.0) / 2.0
    if (s < 0).any():
      return ("negative-scale", "scale %r" % float(s.min()))
    # y = x + stop_gradient(-x + s*c): cancellation error up to one ulp of x
    tol = 1e-6 * np.abs(s) + 2.4e-7 * np.abs(x64) + 1e-30
    bad = np.abs(y64 - s * code) > tol
    if bad.any():
      i = int(np.argmax(bad.reshape(-1)))
      return ("not-scale-times-sign-code",
              "x=%r y=%r scale=%r expected code %r" % (
                  float(x64.reshape(-1)[i]), float(y64.reshape(-1)[i]),
                  float(s.reshape(-1)[i]), float(code.reshape(-1)[i])))
    if isinstance(alpha, str):
      gid = group_ids(x.shape, kw.get("scale_axis"),
                      kw.get("elements_per_scale"))
      return self._auto_scale(kw, alpha, x64, code, gid, s, direct=True)
    want = 1.0 if alpha is None else float(alpha)
    if np.abs(s - want).max() > 1e-6 * abs(want):
      return ("constant-scale-wrong", "scale %r for alpha %r" % (
          float(s.reshape(-1)[0]), alpha))
    return None

  def _ternary(self, spec, alpha, x, y, scale):
    kw = spec["kw"]
    x64, y64 = x.astype(np.float64), y.astype(np.float64)
    s = self._scale_array(scale, x.shape)
    if s is None:
      return ("scale-shape", "scale of shape %r does not broadcast to %r" % (
          np.shape(scale), x.shape))
    if (s < 0).any():
      return ("negative-scale", "scale %r" % float(s.min()))
    # y = x + stop_gradient(-x + s*c): cancellation error up to one ulp of x
    tol = 1e-6 * np.abs(s) + 2.4e-7 * np.abs(x64) + 1e-30
    code = np.where(np.abs(y64) <= tol, 0.0, np.sign(y64))
    bad = np.abs(y64 - s * code) > tol
    if bad.any():
      i = int(np.argmax(bad.reshape(-1)))
      return ("not-a-ternary-code", "x=%r y=%r scale=%r" % (
          float(x64.reshape(-1)[i]), float(y64.reshape(-1)[i]),
          float(s.reshape(-1)[i])))
    # zero counts as positive
    wrong_sign = (code != 0) & (code != np.where(x64 < 0, -1.0, 1.0))
    if wrong_sign.any():
      i = int(np.argmax(wrong_sign.reshape(-1)))
      return ("sign-wrong", "x=%r y=%r" % (float(x64.reshape(-1)[i]),
                                           float(y64.reshape(-1)[i])))
    if not isinstance(alpha, str):
      thr = kw.get("threshold")
      thr = 0.33 if thr is None else float(thr)
      # the comparison is made in float32 against the float32 threshold:
      # "zero exactly when the magnitude is below the threshold" is decided
      # exactly, a magnitude EQUAL to the threshold is not below it
      want_zero = np.abs(x.astype(np.float32)) < np.float32(thr)
      # a zero scale makes every output zero; codes are then unobservable
      obs = s > 0
      bad = obs & (want_zero != (code == 0))
      if bad.any():
        i = int(np.argmax(bad.reshape(-1)))
        return ("threshold-wrong", "x=%r threshold=%r y=%r" % (
            float(x64.reshape(-1)[i]), thr, float(y64.reshape(-1)[i])))
      want = 1.0 if alpha is None else float(alpha)
      if np.abs(s - want).max() > 1e-6 * abs(want):
        return ("constant-scale-wrong", "scale %r for alpha %r" % (
            float(s.reshape(-1)[0]), alpha))
      return None
    # auto thresholds: per scale group a separating threshold must exist
    gid = group_ids(x.shape, None, None)
    g = gid.reshape(-1)
    n = int(g.max()) + 1
    ax = np.abs(x64).reshape(-1)
    cz = (code.reshape(-1) == 0)
    observable = (s.reshape(-1) > 0)
    big = np.full(n, -np.inf)
    small = np.full(n, np.inf)
    np.maximum.at(big, g[cz & observable], ax[cz & observable])
    np.minimum.at(small, g[~cz], ax[~cz])
    if (big > small * (1 + 1e-6)).any():
      j = int(np.argmax(big - small))
      return ("no-separating-threshold",
              "group %d: |x|=%r maps to 0 but |x|=%r maps to +-s" % (
                  j, float(big[j]), float(small[j])))
    return self._auto_scale(kw, alpha, x64, code, gid, s, direct=True)

  def _auto_scale(self, kw, alpha, x64, code, gid, s, direct):
    ls, has = ls_scale(x64, code, gid)
    # constant per group
    g = gid.reshape(-1)
    n = int(g.max()) + 1
    smax = np.full(n, -np.inf)
    smin = np.full(n, np.inf)
    np.maximum.at(smax, g, s.reshape(-1))
    np.minimum.at(smin, g, s.reshape(-1))
    if (smax - smin > 1e-6 * np.abs(smax)).any():
      j = int(np.argmax(smax - smin))
      return ("scale-not-constant-per-group",
              "group %d holds scales %r..%r" % (j, float(smin[j]),
                                                float(smax[j])))
    if alpha == "auto":
      bad = np.abs(s - ls) > 1e-4 * np.abs(ls) + 1e-6
      if bad.any():
        i = int(np.argmax(bad.reshape(-1)))
        return ("scale-not-least-squares",
                "scale %r but sum(x*c)/sum(c*c) of its group is %r" % (
                    float(s.reshape(-1)[i]), float(ls.reshape(-1)[i])))
      return None
    # auto_po2
    if (s <= 0).any():
      return ("po2-scale-not-positive", "scale %r" % float(s.min()))
    e = np.log2(s)
    if (np.abs(e - np.round(e)) > 1e-6).any():
      i = int(np.argmax(np.abs(e - np.round(e)).reshape(-1)))
      return ("scale-not-power-of-two", "scale %r" % float(s.reshape(-1)[i]))
    e = np.round(e)
    lo, hi = kw.get("min_po2_exponent"), kw.get("max_po2_exponent")
    if lo is not None and (e < lo).any():
      return ("po2-exponent-below-min", "exponent %r < %r" % (
          float(e.min()), lo))
    if hi is not None and (e > hi).any():
      return ("po2-exponent-above-max", "exponent %r > %r" % (
          float(e.max()), hi))
    judged = ls > 1e-4
    le = np.log2(np.where(judged, ls, 1.0))
    # ties: either neighbour accepted within 1e-4 (in log2) plus the shift the
    # implementation's log(scale + epsilon) causes for small scales
    tie = 1e-4 + 3e-7 / np.where(judged, ls, 1.0)
    is_tie = np.abs(le - np.floor(le) - 0.5) <= tie
    want_lo = np.where(is_tie, np.floor(le), np.round(le))
    want_hi = np.where(is_tie, np.ceil(le), np.round(le))
    if lo is not None:
      want_lo, want_hi = np.maximum(want_lo, lo), np.maximum(want_hi, lo)
    if hi is not None:
      want_lo, want_hi = np.minimum(want_lo, hi), np.minimum(want_hi, hi)
    bad = judged & ((e < want_lo) | (e > want_hi))
    if bad.any():
      i = int(np.argmax(bad.reshape(-1)))
      return ("po2-scale-not-nearest",
              "scale 2^%d but least-squares value %r (log2 %.4f), bounds %r..%r"
              % (int(e.reshape(-1)[i]), float(ls.reshape(-1)[i]),
                 float(le.reshape(-1)[i]), lo, hi))
    return None


# ---------------------------------------------------------------------------
ENGINE = "Q"
LEVEL = "exploration"
RULE = ("scenario = 1-3 binary/ternary/stochastic_* quantizers (alpha None/"
        "const/auto/auto_po2, use_01, thresholds, scale_axis/elements_per_scale "
        "groupings, exponent bounds) shared by interleaved callers + seeded ops "
        "(CALL / READ_SCALE / PHASE / RNG / TRAINABLE / RESTART / FAILDRAW); "
        "non-trivial = a fault (restart, phase flip, set_trainable, failed "
        "draw, seam mode) fired and an oracle check ran afterwards; distinct = "
        "distinct (op-kind sequence, fired fault kinds, class/option bucket)")
REAL = ["qkeras.quantizers binary/ternary/stochastic_binary/stochastic_ternary",
        "_get_least_squares_scale/_get_scale_mean/_clip_po2_scale",
        "get_weight_scale", "TensorFlow kernels"]
STUB = ["tf.random.uniform (seam)", "learning phase (scheduler-driven)"]
WEIGHTS = {"CALL": 10, "READ_SCALE": 3, "PHASE": 2, "RNG": 1, "TRAINABLE": 0.7,
           "RESTART": 1.5, "FAILDRAW": 0.5}
KINDS = [("gauss", 5), ("uniform", 2), ("zeros", 1), ("zero_channel", 2),
         ("mixed", 3), ("grid", 1), ("po2", 1), ("at_values", 1)]
MAGS = [1.0, 1.0, 0.3, 3.0, 1e-3, 50.0, 1e4, 1e-5]


def execute(scn, known=(), stop=True):
  return Q.execute("C04", scn, known, {"C04": Oracle}, stop)


def generate(rng):
  nq = rng.wpick([(1, 5), (2, 3), (3, 1)])
  world = {"quantizers": [qspecs.gen_spec(rng, rng.pick(CLASSES), focus="c04")
                          for _ in range(nq)]}
  ops = Q.gen_ops(rng, world, WEIGHTS, rng.randrange(8, 30), KINDS, MAGS)
  # ternary asserts "threshold is None" once alpha is automatic: a quantizer
  # configured with a threshold is an activation quantizer and never receives
  # _set_trainable_parameter from a layer constructor (unsupported lattice)
  def _bad(o):
    if o["k"] != "TRAINABLE":
      return False
    s = world["quantizers"][o["q"] % nq]
    return s["cls"] in ("ternary", "stochastic_ternary") and \
        "threshold" in s["kw"]
  ops = [o for o in ops if not _bad(o)]
  # repeated tensors make the history invariant bite
  calls = [o for o in ops if o["k"] == "CALL"]
  for _ in range(min(3, len(calls))):
    src = rng.pick(calls)
    ops.insert(rng.randrange(len(ops) + 1),
               {"k": "CALL", "q": src["q"], "t": dict(src["t"]),
                "sub": rng.subseed()})
  return {"seed": rng.subseed(), "world": world, "ops": ops}


def directed():
  out = []
  tensors = [{"kind": "gauss", "seed": 31, "mag": 1.0},
             {"kind": "zero_channel", "seed": 32, "mag": 2.0},
             {"kind": "mixed", "seed": 33, "mag": 5.0},
             {"kind": "zeros", "seed": 34, "mag": 1.0},
             {"kind": "gauss", "seed": 35, "mag": 1e-4},
             {"kind": "gauss", "seed": 36, "mag": 300.0}]
  shapes = [[6], [4, 4], [2, 2, 4], [2, 2, 2, 4]]
  for label, spec in qspecs.option_probe_specs():
    if spec["cls"] not in CLASSES:
      continue
    for shape in shapes:
      kw = dict(spec["kw"])
      if len(shape) < 2 and ("scale_axis" in kw or "elements_per_scale" in kw):
        continue
      if "scale_axis" in kw and isinstance(kw["scale_axis"], int) and \
          kw["scale_axis"] >= len(shape):
        continue
      ops = []
      sub = 0
      for t in tensors:
        sub += 1
        ops.append({"k": "CALL", "q": 0, "t": t, "sub": sub})
        ops.append({"k": "READ_SCALE", "q": 0})
      ops.append({"k": "RESTART", "q": 0, "route": "from_config", "json": True})
      ops.append({"k": "CALL", "q": 0, "t": tensors[0], "sub": 77})
      ops.append({"k": "READ_SCALE", "q": 0})
      out.append({"label": "directed:%s:rank%d" % (label, len(shape)),
                  "seed": 1, "world": {"quantizers": [
                      {"cls": spec["cls"], "kw": kw, "shape": shape}]},
                  "ops": ops})
  # inputs exactly ON the ternary threshold (and one float32 step either
  # side): "zero exactly when the magnitude is below the threshold"
  for cls in ("ternary", "stochastic_ternary"):
    for alpha in (None, 1.0, 2.0):
      for thr in (None, 0.5, 0.25, 0.75, 1.0, 0.33, 0.1):
        if cls == "stochastic_ternary" and thr is not None and thr >= 1.0:
          continue   # rejected by the constructor
        kw = {}
        if alpha is not None:
          kw["alpha"] = alpha
        if thr is not None:
          kw["threshold"] = thr
        t = {"kind": "at_values", "seed": 71, "mag": 1.0,
             "vals": [0.33 if thr is None else thr]}
        out.append({"label": "directed:threshold-boundary:%s:%r:%r" % (
            cls, alpha, thr), "seed": 1, "world": {"quantizers": [
                {"cls": cls, "kw": kw, "shape": [4, 8]}]},
                    "ops": [{"k": "CALL", "q": 0, "t": t, "sub": 1},
                            {"k": "READ_SCALE", "q": 0},
                            {"k": "CALL", "q": 0, "t": dict(t, seed=72),
                             "sub": 2}]})
  for i, spec in enumerate(_grouping_worlds()):
    ops = []
    for j, t in enumerate(GROUP_TENSORS):
      ops.append({"k": "CALL", "q": 0, "t": t, "sub": j})
      ops.append({"k": "READ_SCALE", "q": 0})
    out.append({"label": "directed:grouping:%d:%s" % (i, json.dumps(
        spec["kw"], sort_keys=True)), "seed": 1,
                "world": {"quantizers": [spec]}, "ops": ops})
  return out


def _grouping_worlds():
  """List-valued scale_axis with per-axis elements_per_scale, several
  multi-element groups along an axis (1 < eps < dim)."""
  out = []
  cases = [([4, 6], [0, 1], [2, 3]), ([4, 6], [0, 1], 2),
           ([2, 4, 6], [1, 2], [2, 2]), ([2, 4, 6, 8], [1, 3], [2, 4]),
           ([2, 4, 6, 8], [0, 1, 3], [2, 2, 1]), ([1, 4, 4, 8], [2, 3], 2),
           ([4, 6], 1, 2), ([2, 4, 6], 0, 1)]
  for shape, ax, eps in cases:
    for alpha in ("auto", "auto_po2"):
      for u01 in (False, True):
        kw = {"alpha": alpha, "scale_axis": ax, "elements_per_scale": eps}
        if u01:
          kw["use_01"] = True
        out.append({"cls": "binary", "kw": kw, "shape": shape})
  return out


GROUP_TENSORS = [{"kind": "gauss", "seed": 61, "mag": 1.0},
                 {"kind": "mixed", "seed": 62, "mag": 4.0},
                 {"kind": "zero_channel", "seed": 63, "mag": 2.0}]


def simplify(scn):
  qs = scn["world"]["quantizers"]
  for i, s in enumerate(qs):
    for key in sorted(s["kw"]):
      c = json.loads(json.dumps(scn))
      del c["world"]["quantizers"][i]["kw"][key]
      yield c
  for i, op in enumerate(scn["ops"]):
    if op["k"] == "CALL" and op["t"]["kind"] != "gauss":
      c = json.loads(json.dumps(scn))
      c["ops"][i]["t"] = {"kind": "gauss", "seed": op["t"]["seed"], "mag": 1.0}
      yield c


def bucket(scn):
  return [(s["cls"], sorted(s["kw"]), len(s["shape"]))
          for s in scn["world"]["quantizers"]]
