"""Simulator core: seed derivation, event log, digests, run context, ddmin.

Nothing in this module imports TensorFlow; the parent driver uses it too.

One integer decides everything: run_seed = derive_seed(VERIF_SEED, property,
run_index).  A scenario (world + explicit op list) is plain JSON data; replay
executes the recorded op list and never regenerates it from the seed.
"""
import hashlib
import json
import os
import random
import traceback

REPO = os.environ.get("VERIF_REPO", "/repo")
REPO_PKG = os.path.join(os.path.realpath(REPO), "qkeras") + os.sep


def derive_seed(*parts):
  h = hashlib.sha256(repr(parts).encode()).digest()
  return int.from_bytes(h[:8], "big") >> 1


class Rng(random.Random):
  """random.Random with a few helpers; only ever seeded from derive_seed."""

  def chance(self, p):
    return self.random() < p

  def pick(self, seq):
    return seq[self.randrange(len(seq))]

  def wpick(self, pairs):
    """pairs: list of (item, weight)."""
    tot = sum(w for _, w in pairs)
    r = self.random() * tot
    for it, w in pairs:
      r -= w
      if r < 0:
        return it
    return pairs[-1][0]

  def subseed(self):
    return self.getrandbits(31)


def jdump(o):
  return json.dumps(o, sort_keys=True, separators=(",", ":"), default=_jdefault)


def _jdefault(o):
  try:
    import numpy as np
    if isinstance(o, np.generic):
      return o.item()
    if isinstance(o, np.ndarray):
      return o.tolist()
  except Exception:  # pragma: no cover
    pass
  return repr(o)


class HarnessError(Exception):
  """The harness itself is wrong; never a violation, never a pass."""


class StopRun(Exception):
  """Raised by Ctx.violation to end the run at the first new violation."""


class Ctx:
  """Per-run context: event log, violation recording, fault/probe counters."""

  def __init__(self, prop, known_sigs=(), stop_on_violation=True):
    self.prop = prop
    self.known_sigs = set(known_sigs)
    self.stop = stop_on_violation
    self.h = hashlib.sha256()
    self.step = -1
    self.violations = []   # not in the known-findings file
    self.known = []        # listed in the known-findings file
    self.faults = {}
    self.probes = {}
    self.oracle_checks = 0
    self.oracle_after_fault = 0
    self._fault_seen = False
    self.events = []

  # -- log ---------------------------------------------------------------
  def log(self, tag, *vals):
    """Append to the event log digest.  Never draws randomness or time."""
    self.h.update(tag.encode())
    for v in vals:
      self.h.update(_to_bytes(v))

  def event(self, text):
    if len(self.events) < 400:
      self.events.append("%d:%s" % (self.step, text))

  def digest(self):
    return self.h.hexdigest()[:32]

  # -- counters ----------------------------------------------------------
  def fault(self, kind, n=1):
    self.faults[kind] = self.faults.get(kind, 0) + n
    self._fault_seen = True

  def probe(self, name, n=1):
    self.probes[name] = self.probes.get(name, 0) + n

  def checked(self, n=1):
    self.oracle_checks += n
    if self._fault_seen:
      self.oracle_after_fault += n

  # -- verdicts ----------------------------------------------------------
  def violation(self, sig, msg):
    sig = "%s|%s" % (self.prop, sig)
    rec = {"sig": sig, "step": self.step, "msg": str(msg)[:600]}
    if sig in self.known_sigs:
      if not any(k["sig"] == sig for k in self.known):
        self.known.append(rec)
      return False
    self.violations.append(rec)
    self.log("VIOLATION", sig)
    if self.stop:
      raise StopRun()
    return True

  def result(self):
    return {
        "violations": self.violations, "known": self.known,
        "digest": self.digest(), "faults": self.faults, "probes": self.probes,
        "oracle_checks": self.oracle_checks,
        "oracle_after_fault": self.oracle_after_fault,
    }


def _to_bytes(v):
  if isinstance(v, bytes):
    return v
  if isinstance(v, str):
    return v.encode()
  if isinstance(v, (int, bool)) or v is None:
    return repr(v).encode()
  if isinstance(v, float):
    import struct
    return struct.pack("<d", v)
  try:
    import numpy as np
    if isinstance(v, np.ndarray):
      a = np.ascontiguousarray(v)
      return str(a.dtype).encode() + repr(a.shape).encode() + a.tobytes()
    if isinstance(v, np.generic):
      return np.asarray(v).tobytes()
  except Exception:  # pragma: no cover
    pass
  if isinstance(v, (list, tuple, dict)):
    return jdump(v).encode()
  return repr(v).encode()


# ---------------------------------------------------------------------------
# classification of exceptions
_MSG_FRAME = None


def repo_frames(exc):
  """Frames of exc's traceback (and of its causes) that lie in /repo/qkeras.

  Keras / autograph re-raise layer errors with a filtered traceback and put
  the user-code frames into the message ('File "/repo/qkeras/x.py", line N, in
  f'); those count too."""
  global _MSG_FRAME
  import re
  if _MSG_FRAME is None:
    _MSG_FRAME = re.compile(r'File "%s([^"]+)", line \d+, in (\w+)' %
                            re.escape(REPO_PKG))
  out = []
  seen = set()
  e = exc
  while e is not None and id(e) not in seen:
    seen.add(id(e))
    for fs in traceback.extract_tb(e.__traceback__):
      fn = os.path.realpath(fs.filename)
      if fn.startswith(REPO_PKG):
        out.append((os.path.relpath(fn, REPO_PKG), fs.name))
    e = e.__cause__ or e.__context__
  if not out:
    out = [(m.group(1), m.group(2)) for m in _MSG_FRAME.finditer(str(exc))]
  return out


def exc_sig(exc):
  """Cause-level signature of an exception raised through qkeras code."""
  fr = repo_frames(exc)
  where = "%s:%s" % fr[-1] if fr else "?"
  return "%s@%s" % (type(exc).__name__, where)


def guard(ctx, what, fn, *a, always=False, **kw):
  """Run fn; an exception that passed through /repo/qkeras during an operation
  the property says must succeed is a violation; any other is a harness error.

  always=True: the operation is one the property says must succeed whatever
  raises (e.g. Keras refusing to serialise what qkeras handed it).

  Returns (ok, value)."""
  try:
    return True, fn(*a, **kw)
  except (StopRun, HarnessError, KeyboardInterrupt, MemoryError):
    raise
  except InjectedFault:
    raise
  except Exception as e:  # pylint: disable=broad-except
    if always or repo_frames(e):
      ctx.violation("%s|raises:%s" % (what, exc_sig(e)),
                    "%s raised %s: %s" % (what, type(e).__name__, str(e)[:300]))
      return False, None
    raise HarnessError("%s: %s: %s\n%s" % (
        what, type(e).__name__, e, traceback.format_exc())) from e


class InjectedFault(Exception):
  """Raised by a seam on purpose (disk error, failed draw, crash point)."""


# ---------------------------------------------------------------------------
# minimisation: ddmin over the op list, then engine-specific simplification
def minimise(scn, fails, simplify=None, budget=120):
  """fails(scn) -> bool: the SAME violation signature reproduces.

  Returns the smallest scenario found.  budget = max number of executions."""
  best = json.loads(jdump(scn))
  used = [0]

  def t(c):
    if used[0] >= budget:
      return False
    used[0] += 1
    try:
      return bool(fails(c))
    except Exception:  # pylint: disable=broad-except
      # an invalid candidate (e.g. an option removed that another depends on)
      return False

  ops = best["ops"]
  n = 2
  while len(ops) >= 2 and used[0] < budget:
    chunk = max(1, len(ops) // n)
    removed = False
    i = 0
    while i < len(ops):
      cand = dict(best)
      cand["ops"] = ops[:i] + ops[i + chunk:]
      if cand["ops"] != ops and t(cand):
        best = cand
        ops = best["ops"]
        n = max(n - 1, 2)
        removed = True
      else:
        i += chunk
    if not removed:
      if chunk == 1:
        break
      n = min(len(ops), n * 2)
  if len(ops) == 1:
    cand = dict(best)
    cand["ops"] = []
    if t(cand):
      best = cand
  if simplify is not None:
    progress = True
    while progress and used[0] < budget:
      progress = False
      for cand in simplify(best):
        if used[0] >= budget:
          break
        if t(cand):
          best = json.loads(jdump(cand))
          progress = True
          break
  best["_minimise_execs"] = used[0]
  return best
