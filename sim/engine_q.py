"""Engine Q - the quantizer world.

Actors: 1-3 live quantizer objects (plus the companions an oracle builds: a
never-restarted twin, a deterministic sibling, qnoise siblings ...).  Clients:
layer-like callers, a scale reader, the noise scheduler's update API, layer
constructors (_set_trainable_parameter), a tf.function tracer, the serialiser
(restart with only durable state surviving).  The scheduler decides which
client acts next, the learning phase, and what the uniform seam returns.

Ops (plain data; all arguments explicit):
  CALL       {q, t:{kind,seed,mag}, sub}     call quantizer q on a tensor
  READ_SCALE {q}
  PHASE      {p}
  RNG        {mode}
  QNOISE     {q, f, as: float|const|var}
  BUILDV     {q}            build(use_variables=True)   (what QNoiseScheduler does)
  TRAINABLE  {q}            _set_trainable_parameter()  (what layer ctors do)
  TRACE      {q}            wrap q in a tf.function, used by later CALLs
  RESTART    {q, route, json}
  FAILDRAW   {}             next uniform draw raises
"""
import json

import numpy as np

from . import qspecs
from .core import (Ctx, HarnessError, InjectedFault, StopRun, guard)
from .seams import UniformSeam, fresh_session, set_phase, tf_setup


# ---------------------------------------------------------------------------
def make_tensor(shape, t):
  """Deterministic tensor from an explicit description."""
  g = np.random.Generator(np.random.PCG64(int(t["seed"])))
  kind = t["kind"]
  mag = float(t.get("mag", 1.0))
  shape = tuple(shape)
  if kind == "gauss":
    x = g.standard_normal(shape) * mag
  elif kind == "uniform":
    x = g.uniform(-mag, mag, shape)
  elif kind == "zeros":
    x = np.zeros(shape)
  elif kind == "zero_channel":
    x = g.standard_normal(shape) * mag
    x[..., g.integers(shape[-1])] = 0.0
  elif kind == "grid":
    # multiples of a power-of-two step: exact codes for many formats
    step = float(t.get("step", 0.125))
    x = np.round(g.uniform(-mag, mag, shape) / step) * step
  elif kind == "halfgrid":
    step = float(t.get("step", 0.125))
    x = (np.floor(g.uniform(-mag, mag, shape) / step) + 0.5) * step
  elif kind == "po2":
    e = g.integers(-6, 5, shape)
    s = np.where(g.random(shape) < 0.5, -1.0, 1.0)
    x = s * np.power(2.0, e)
  elif kind == "pos":
    x = np.abs(g.standard_normal(shape)) * mag + 1e-3
  elif kind == "at_values":
    # values exactly ON given breakpoints (and one float32 step either side)
    vals = np.asarray(t.get("vals", [0.33, 0.5, 0.25, 0.75, 1.0]),
                      dtype=np.float32)
    v = vals[g.integers(len(vals), size=shape)]
    sgn = np.where(g.random(shape) < 0.5, np.float32(-1), np.float32(1))
    nudge = g.integers(0, 4, size=shape)
    v = np.where(nudge == 1, np.nextafter(v, np.float32(np.inf)), v)
    v = np.where(nudge == 2, np.nextafter(v, np.float32(-np.inf)), v)
    x = (sgn * v).astype(np.float32)
  elif kind == "mixed":
    x = g.standard_normal(shape) * mag
    m = g.random(shape)
    x = np.where(m < 0.15, 0.0, x)
    x = np.where((m >= 0.15) & (m < 0.3), x * 1e-4, x)
    x = np.where(m > 0.9, x * 50.0, x)
  else:
    raise HarnessError("tensor kind " + kind)
  return np.ascontiguousarray(x, dtype=np.float32)


TENSOR_KINDS = [("gauss", 5), ("uniform", 2), ("zeros", 1), ("zero_channel", 2),
                ("grid", 2), ("halfgrid", 1), ("po2", 1), ("mixed", 2)]


def gen_tensor(rng, kinds=None, mags=None):
  kind = rng.wpick(kinds or TENSOR_KINDS)
  t = {"kind": kind, "seed": rng.subseed(),
       "mag": rng.pick(mags or [1.0, 1.0, 0.3, 3.0, 0.05, 20.0])}
  if kind in ("grid", "halfgrid"):
    t["step"] = rng.pick([0.5, 0.25, 0.125, 0.0625, 1.0])
  return t


# ---------------------------------------------------------------------------
def build_quantizer(spec):
  import qkeras.quantizers as qq
  kw = dict(spec["kw"])
  if kw.get("post_training_scale") is not None and not spec.get("pts_raw"):
    # pts_raw: the value is handed over as written (python list or number),
    # which the constructor accepts as well
    kw["post_training_scale"] = np.array(kw["post_training_scale"], np.float32)
  return getattr(qq, spec["cls"])(**kw)


def read_scale(q):
  """The scale the quantizer exposes right now (numpy) or None."""
  tf = tf_setup()
  try:
    if not hasattr(q, "scale"):
      return None
    s = q.scale
  except TypeError as e:
    if "out of scope" in str(e):
      # quantized_linear.scale is a property computed from a graph tensor
      # leaked by a call inside a tf.function: nothing to read (not judged)
      return SYMBOLIC
    raise
  if s is None:
    return None
  if tf.is_tensor(s) or isinstance(s, tf.Variable):
    if not hasattr(s, "numpy"):
      # the last call ran inside a tf.function: the side-effect attribute
      # holds a graph tensor; nothing can be read (not judged)
      return SYMBOLIC
    s = s.numpy()
  return np.asarray(s, dtype=np.float32)


SYMBOLIC = "symbolic"


def training_supported(spec):
  if spec["cls"] == "stochastic_ternary":
    return isinstance(spec["kw"].get("alpha"), str)
  return True


def is_stochastic(spec):
  c, kw = spec["cls"], spec["kw"]
  if c in ("stochastic_binary", "stochastic_ternary", "bernoulli"):
    return True
  return bool(kw.get("use_stochastic_rounding"))


def same(a, b):
  """Bit-for-bit equality of two arrays / scalars / None (NaN == NaN)."""
  if a is None or b is None:
    return a is None and b is None
  if isinstance(a, str) or isinstance(b, str):
    return True   # SYMBOLIC: not judged
  a = np.asarray(a)
  b = np.asarray(b)
  if a.shape != b.shape:
    return False
  return bool(np.array_equal(a, b, equal_nan=True))


class QWorld:
  """Live state of the quantizer world."""

  def __init__(self, wspec, ctx, seam):
    self.ctx = ctx
    self.seam = seam
    self.specs = wspec["quantizers"]
    self.phase = 0
    self.qs = []
    self.traced = {}
    self.last = {}
    for i, s in enumerate(self.specs):
      ok, q = guard(ctx, "%s|construct" % s["cls"], build_quantizer, s)
      if not ok:
        raise StopRun()
      self.qs.append(q)
    set_phase(0)

  def n(self):
    return len(self.qs)

  def call_raw(self, q, x, sub, traced_fn=None):
    """One quantizer call under the seam; returns numpy output."""
    tf = tf_setup()
    self.seam.reseed(sub)
    xt = tf.constant(x)
    y = traced_fn(xt) if traced_fn is not None else q(xt)
    return np.asarray(y.numpy() if hasattr(y, "numpy") else y)


# ---------------------------------------------------------------------------
class QOracle:
  """Base class: property-specific companions and checks."""
  focus = None
  call_must_succeed = True

  def on_call_exception(self, qi, op, x, exc):
    pass

  def knob_is_variable(self, qi, q):
    """Whether a trace of q taken now would follow later updates."""
    tf = tf_setup()
    return isinstance(getattr(q, "qnoise_factor", None), tf.Variable)

  def __init__(self, ctx, world, scn):
    self.ctx = ctx
    self.w = world
    self.scn = scn

  def start(self):
    pass

  def finish(self):
    pass

  def mirror(self, op):
    """Apply a state-changing op to the companions."""

  def on_call(self, qi, op, x, y, scale, failed):
    pass

  def on_read_scale(self, qi, s):
    pass

  def on_restart(self, qi, op, ok):
    pass


def apply_qnoise(q, f, how):
  tf = tf_setup()
  if not hasattr(q, "qnoise_factor"):
    return False
  if how == "var":
    v = tf.Variable(f, dtype=tf.float32, trainable=False, name="upd")
    # a tf.Variable argument is an explicit branch of the update API, for a
    # variable-backed and for a float-backed knob alike
    q.update_qnoise_factor(v)
  elif how == "const":
    q.update_qnoise_factor(np.float32(f))
  else:
    q.update_qnoise_factor(float(f))
  return True


def restart(q, route, through_json, twice=False):
  """Rebuild q from durable state only.

  twice=True: the SAME configuration dictionary is used for two rebuilds and
  the second result is returned (a saved architecture is read more than once;
  a from_config that consumes its argument shows up only then)."""
  import qkeras.quantizers as qq
  cls = type(q)
  n = 2 if twice else 1
  out = None
  if route == "from_config":
    cfg = q.get_config()
    if through_json:
      cfg = _json_roundtrip(cfg)
    for _ in range(n):
      out = cls.from_config(cfg)
    return out
  if route == "get_quantizer":
    from tf_keras.utils import serialize_keras_object
    d = serialize_keras_object(q)
    if through_json:
      d = _json_roundtrip(d)
    for _ in range(n):
      out = qq.get_quantizer(d)
    return out
  if route == "keras":
    # what qkeras layers do: constraints.serialize(...) in get_config and
    # get_quantizer(...) / deserialize in from_config
    from tf_keras import constraints
    from tf_keras.utils import deserialize_keras_object
    d = constraints.serialize(q)
    if through_json:
      d = _json_roundtrip(d)
    for _ in range(n):
      out = deserialize_keras_object(d, module_objects=vars(qq),
                                     printable_module_name="quantizer")
    return out
  raise HarnessError("route " + route)


def _json_roundtrip(o):
  from tf_keras.src.saving.legacy.saved_model import json_utils
  return json.loads(json.dumps(o, default=json_utils.get_json_type))


def execute(prop, scn, known_sigs=(), oracles=None, stop=True, extra=None):
  """Run one scenario; returns Ctx.result()."""
  tf = tf_setup()
  ctx = Ctx(prop, known_sigs, stop_on_violation=stop)
  fresh_session(int(scn.get("seed", 0)))
  seam = UniformSeam().install()
  try:
    world = QWorld(scn["world"], ctx, seam)
    oracle = oracles[prop](ctx, world, scn)
    oracle.start()
    for i, op in enumerate(scn["ops"]):
      ctx.step = i
      apply_op(ctx, world, oracle, op, extra)
    ctx.step = len(scn["ops"])
    oracle.finish()
  except StopRun:
    pass
  finally:
    seam.uninstall()
    set_phase(0)
  return ctx.result()


def apply_op(ctx, w, oracle, op, extra=None):
  tf = tf_setup()
  k = op["k"]
  ctx.log("op", k)
  if k == "CALL":
    qi = op["q"] % w.n()
    spec = w.specs[qi]
    q = w.qs[qi]
    if w.phase == 1 and not training_supported(spec):
      ctx.probe("call_skipped_unsupported_phase")
      return
    x = make_tensor(spec["shape"], op["t"])
    failed = False
    will_fail = w.seam.fail_next
    try:
      if oracle.call_must_succeed:
        ok, y = guard(ctx, "%s|call" % spec["cls"], w.call_raw, q, x,
                      op.get("sub", 0), w.traced.get(qi))
      else:
        try:
          ok, y = True, w.call_raw(q, x, op.get("sub", 0), w.traced.get(qi))
        except (InjectedFault, StopRun, HarnessError):
          raise
        except Exception as e:  # pylint: disable=broad-except
          ok, y = False, None
          oracle.on_call_exception(qi, op, x, e)
    except InjectedFault:
      ok, y, failed = False, None, True
      ctx.fault("draw_failed_in_call")
    if will_fail and not failed:
      w.seam.fail_next = False     # no draw happened in this call
    if failed:
      oracle.on_call(qi, op, x, None, None, True)
      return
    if not ok:
      return
    s = read_scale(q)
    ctx.log("y", y)
    ctx.log("s", s if s is not None else "none")
    if isinstance(s, str):
      ctx.probe("scale_symbolic_after_traced_call")
    w.last[qi] = {"x": x, "y": y, "scale": s, "phase": w.phase}
    oracle.on_call(qi, op, x, y, s, False)
  elif k == "READ_SCALE":
    qi = op["q"] % w.n()
    q = w.qs[qi]
    s = read_scale(q)
    import qkeras.quantizers as qq
    if not isinstance(s, str):
      ok, gs = guard(ctx, "%s|get_weight_scale" % w.specs[qi]["cls"],
                     qq.get_weight_scale, q)
      if ok:
        # the public reader must return the exposed scale (1.0 when the
        # quantizer exposes none)
        ctx.checked()
        want = np.float32(1.0) if s is None else s
        if not same(np.asarray(gs, np.float32), np.asarray(want, np.float32)):
          ctx.violation("%s|get_weight_scale-differs-from-exposed-scale" %
                        w.specs[qi]["cls"],
                        "get_weight_scale returns %r, quantizer.scale is %r" % (
                            np.asarray(gs).reshape(-1)[:4].tolist(),
                            np.asarray(want).reshape(-1)[:4].tolist()))
    ctx.log("rs", s if s is not None else "none")
    oracle.on_read_scale(qi, s)
  elif k == "PHASE":
    w.phase = int(op["p"])
    set_phase(w.phase)
    ctx.fault("phase_flip")
    oracle.mirror(op)
  elif k == "RNG":
    w.seam.set_mode(op["mode"])
    ctx.fault("rng_" + op["mode"]["m"])
  elif k == "FAILDRAW":
    w.seam.fail_next = True
  elif k == "QNOISE":
    qi = op["q"] % w.n()
    q = w.qs[qi]
    if hasattr(q, "qnoise_factor"):
      guard(ctx, "%s|update_qnoise_factor" % w.specs[qi]["cls"], apply_qnoise,
            q, op["f"], op["as"])
      ctx.fault("qnoise_update_" + op["as"])
      if not oracle.knob_is_variable(qi, q):
        # a trace taken while the knob is a python float captured a constant
        # (TensorFlow semantics, not qkeras): drop it rather than judge it
        w.traced.pop(qi, None)
      oracle.mirror(dict(op, q=qi))
  elif k == "BUILDV":
    qi = op["q"] % w.n()
    q = w.qs[qi]
    if hasattr(q, "qnoise_factor") and not isinstance(q.qnoise_factor,
                                                      tf.Variable):
      guard(ctx, "%s|build" % w.specs[qi]["cls"], q.build, use_variables=True)
      ctx.fault("variable_build")
      oracle.mirror(dict(op, q=qi))
  elif k == "TRAINABLE":
    qi = op["q"] % w.n()
    guard(ctx, "%s|_set_trainable_parameter" % w.specs[qi]["cls"],
          w.qs[qi]._set_trainable_parameter)
    ctx.fault("set_trainable")
    w.traced.pop(qi, None)
    oracle.mirror(dict(op, q=qi))
  elif k == "TRACE":
    qi = op["q"] % w.n()
    q = w.qs[qi]
    w.traced[qi] = tf.function(lambda t, _q=q: _q(t))
    ctx.fault("trace")
    oracle.mirror(dict(op, q=qi))
  elif k == "RESTART":
    qi = op["q"] % w.n()
    q = w.qs[qi]
    ok, q2 = guard(ctx, "%s|restart:%s" % (w.specs[qi]["cls"], op["route"]),
                   restart, q, op["route"], bool(op.get("json")),
                   bool(op.get("twice")), always=True)
    ctx.fault("restart_" + op["route"] + ("_json" if op.get("json") else "") +
              ("_same_dict_twice" if op.get("twice") else ""))
    if ok:
      if type(q2) is not type(q):
        ctx.violation("%s|restart-class-changed" % w.specs[qi]["cls"],
                      "restart yields %s" % type(q2).__name__)
      w.qs[qi] = q2
      w.traced.pop(qi, None)
    oracle.on_restart(qi, op, ok)
  elif extra is not None and extra(ctx, w, oracle, op):
    pass
  else:
    raise HarnessError("unknown op " + k)


# ---------------------------------------------------------------------------
# generation
def gen_world(rng, prop, classes, nq=None):
  focus = prop.lower()
  nq = nq or rng.wpick([(1, 5), (2, 3), (3, 1)])
  qs = []
  for _ in range(nq):
    cls = rng.pick(classes)
    qs.append(qspecs.gen_spec(rng, cls, focus=focus))
  return {"quantizers": qs}


def gen_ops(rng, world, weights, n_ops, tensor_kinds=None, mags=None):
  """Swarm: a random subset of op kinds is enabled per run."""
  nq = len(world["quantizers"])
  kinds = [(k, w_) for k, w_ in weights.items() if w_ > 0]
  # swarm: drop each non-CALL kind with probability 0.3
  enabled = [(k, w_) for k, w_ in kinds if k == "CALL" or not rng.chance(0.3)]
  ops = []
  for _ in range(n_ops):
    k = rng.wpick(enabled)
    op = {"k": k}
    if k in ("CALL", "READ_SCALE", "QNOISE", "BUILDV", "TRAINABLE", "TRACE",
             "RESTART"):
      op["q"] = rng.randrange(nq)
    if k == "CALL":
      op["t"] = gen_tensor(rng, tensor_kinds, mags)
      op["sub"] = rng.subseed()
    elif k == "PHASE":
      op["p"] = rng.randrange(2)
    elif k == "RNG":
      m = rng.wpick([("prng", 4), ("zero", 2), ("one_minus", 2), ("strata", 2),
                     ("const", 1)])
      mode = {"m": m}
      if m == "prng":
        mode["seed"] = rng.subseed()
      elif m == "strata":
        mode["K"] = 8
        mode["k"] = rng.randrange(8)
      elif m == "const":
        mode["u"] = rng.pick([0.5, 0.25, 0.75, 0.999])
      op["mode"] = mode
    elif k == "QNOISE":
      op["f"] = rng.pick([0.0, 1.0, 0.5, 0.25, 0.75, 0.125, 0.3])
      op["as"] = rng.pick(["float", "const", "var"])
    elif k == "RESTART":
      op["route"] = rng.pick(["from_config", "get_quantizer", "keras"])
      op["json"] = rng.chance(0.5)
      op["twice"] = rng.chance(0.3)
    ops.append(op)
  return ops
