"""C14 - export of quantized weights: an interruptible multi-step in-place
mutation plus a file write.

Oracle after a completed EXPORT: every quantized layer holds exactly its
quantizer (paired BY ROLE, through the weight variable names, not through the
order of get_quantizers()) applied once to its previous weights; the returned
dictionary describes those weights (po2: sign*2^exponent; auto_po2 fixed point:
scale*integer with in-range integers; fusable batch-norm: inverse and fused
bias from the BN algebra on the quantized parameters).  When every scale is
data-independent (or frozen by the library's freeze utility): predictions are
unchanged and a second export changes nothing.

Fault enumeration: for a model with L exported layers the export is crashed at
EVERY layer boundary k = 0..L-1 (the k-th set_weights raises) and in the final
file write; afterwards a clean export must give exactly the weights and the
dictionary of an uninterrupted export (claimed for data-independent scales).
"""
import json
import os

import numpy as np

from . import engine_m as M
from .core import Ctx, HarnessError, InjectedFault, StopRun, guard
from .seams import fresh_session, set_phase, tf_setup

ROLE = {
    "kernel": "kernel_quantizer_internal",
    "recurrent_kernel": "recurrent_quantizer_internal",
    "bias": "bias_quantizer_internal",
    "depthwise_kernel": "depthwise_quantizer_internal",
    "pointwise_kernel": "pointwise_quantizer_internal",
    "gamma": "gamma_quantizer_internal",
    "beta": "beta_quantizer_internal",
    "moving_mean": "mean_quantizer_internal",
    "moving_variance": "variance_quantizer_internal",
    "weight": "weight_quantizer_internal",
}
FOLDED = ("QConv2DBatchnorm", "QDepthwiseConv2DBatchnorm")


def exported_layers(model):
  return [l for l in model.layers if hasattr(l, "get_quantizers")]


def role_pairs(layer):
  """[(role name, quantizer or None)] aligned with layer.get_weights()."""
  out = []
  cls = type(layer).__name__

  def owner_for(var_name):
    if cls == "QBidirectional":
      if "backward" in var_name:
        return layer.backward_layer.cell
      return layer.forward_layer.cell
    if hasattr(layer, "cell"):
      return layer.cell
    return layer

  for v in layer.weights:
    nm = v.name.split("/")[-1].split(":")[0]
    own = owner_for(v.name)
    attr = ROLE.get(nm)
    q = getattr(own, attr, None) if attr else None
    out.append((nm, q))
  return out


def apply_q(q, w):
  tf = tf_setup()
  if q is None:
    return np.asarray(w)
  return np.asarray(q(tf.constant(w)).numpy())


def expected_export(model):
  """{layer name: [expected weights]} = role quantizer applied once."""
  exp = {}
  for l in exported_layers(model):
    if type(l).__name__ in FOLDED:
      continue
    ws = l.get_weights()
    if not ws:
      continue
    pairs = role_pairs(l)
    exp[l.name] = [apply_q(q, w) for (nm, q), w in zip(pairs, ws)]
  return exp


def qname(q):
  return type(q).__name__ if q is not None else ""


def quirk_layers(model):
  """{layer name: kind} for layers holding a weight quantizer that is known not
  to be idempotent although its scale is constant (known_findings.json):
    quantized_bits-constant-alpha: legacy quantized_bits(alpha=c), c != 1,
      returns c*Q(x) without dividing x by c;
    binary-use_01: binary(use_01=True) maps negatives to 0 and then 0 (which
      counts as positive) to +scale."""
  out = {}
  for l in exported_layers(model):
    for nm, q in role_pairs(l):
      if qname(q) in ("quantized_bits", "quantized_hswish"):
        a = getattr(q, "alpha", None)
        if a is not None and not isinstance(a, str) and float(a) != 1.0:
          out[l.name] = "quantized_bits-constant-alpha"
          break
      if qname(q) == "binary" and getattr(q, "use_01", False) and not \
          isinstance(getattr(q, "alpha", None), str):
        out[l.name] = "binary-use_01"
        break
  return out


def const_alpha_layers(model):
  return quirk_layers(model)


def is_data_independent(model):
  if const_alpha_layers(model):
    return False
  for l in exported_layers(model):
    for nm, q in role_pairs(l):
      if q is None:
        continue
      a = getattr(q, "alpha", None)
      if isinstance(a, str) and getattr(q, "post_training_scale", None) is None:
        return False
      if qname(q) in ("stochastic_binary", "stochastic_ternary", "bernoulli"):
        return False
  return True


def check_export(ctx, model, before_exp, hw, tag=""):
  """Per-layer relation between previous weights, stored weights and dict."""
  for l in exported_layers(model):
    cls = type(l).__name__
    if cls in FOLDED:
      continue
    ws = l.get_weights()
    if l.name not in before_exp:
      continue
    exp = before_exp[l.name]
    pairs = role_pairs(l)
    ctx.checked()
    for i, ((nm, q), w, e) in enumerate(zip(pairs, ws, exp)):
      if not np.array_equal(w, e, equal_nan=True):
        ctx.violation("export|%s|%s-not-its-quantizer-applied-once" % (cls, nm),
                      "%s.%s after export differs from %s applied to the "
                      "previous weights (max diff %g)%s" % (
                          l.name, nm, qname(q) or "identity", float(np.nanmax(
                              np.abs(w.astype(np.float64) - e))), tag))
        return False
    d = hw.get(l.name)
    if d is None:
      ctx.violation("export|%s|missing-from-dictionary" % cls, l.name)
      return False
    hws = d.get("weights", [])
    if len(hws) < len(ws):
      ctx.violation("export|%s|dictionary-too-short" % cls,
                    "%d entries for %d weights" % (len(hws), len(ws)))
      return False
    for i, ((nm, q), w) in enumerate(zip(pairs, ws)):
      h = np.asarray(hws[i])
      qn = qname(q)
      w64 = w.astype(np.float64)
      ctx.checked()
      if q is not None and "_po2" in qn:
        signs = d.get("signs")
        if qn == "quantized_po2":
          if signs is None or len(signs) != len(hws):
            ctx.violation("export|%s|po2-signs-not-aligned-with-weights" % cls, "%s.%s: %s sign entries for %d weights" % (l.name, nm, "no" if signs is None else len(signs), len(hws)))
            return False
            continue
          sg = np.asarray(signs[i], np.float64)
        else:
          sg = 1.0
        if h.shape != w.shape or np.abs(sg * np.power(2.0, h.astype(
            np.float64)) - w64).max() > 1e-6 * np.abs(w64).max():
          ctx.violation("export|%s|po2-sign-exponent-mismatch:%s" % (cls, nm),
                        "sign*2^exponent differs from the stored weight for "
                        "%s.%s%s" % (l.name, nm, tag))
          return False
      elif qn == "quantized_bits" and getattr(q, "alpha", None) == "auto_po2":
        scales = d.get("scales")
        if scales is None or len(scales) != len(hws) or \
            np.size(scales[i]) == 0:
          ctx.violation("export|%s|auto-po2-scale-missing:%s" % (cls, nm),
                        "no scale entry for %s.%s" % (l.name, nm))
          return False
        sc = np.asarray(scales[i], np.float64)
        hi = h.astype(np.float64)
        ub = q.bits - (1 if q.keep_negative else 0)
        m = 2.0 ** ub
        m_i = 2.0 ** float(q.integer)
        s_exp = np.asarray(q.scale.numpy() if hasattr(q.scale, "numpy")
                           else q.scale, np.float64)
        # (a) the scale entry is the hardware scale of the integer codes
        try:
          ok_a = np.array_equal(np.broadcast_to(sc, np.broadcast(
              sc, s_exp).shape), np.broadcast_to(s_exp * m_i / m, np.broadcast(
                  sc, s_exp).shape))
        except ValueError:
          ok_a = False
        if not ok_a:
          ctx.violation("export|%s|auto-po2-scale-entry-wrong:%s" % (cls, nm),
                        "scale entry is not quantizer.scale*2^integer/2^bits "
                        "for %s.%s%s" % (l.name, nm, tag))
          return False
        # (b) scale * integer weight = stored weight, integers in range
        try:
          z = w64 / np.broadcast_to(sc, w64.shape)
        except ValueError:
          ctx.violation("export|%s|auto-po2-scale-shape:%s" % (cls, nm),
                        "scale %r vs weight %r" % (sc.shape, w64.shape))
          return False
        top = 2.0 ** (q.bits - 1) - 1 if q.keep_negative else 2.0 ** q.bits - 1
        good = hi.shape == w64.shape and np.abs(hi - z).max() <= 1e-4 and \
            np.abs(hi - np.round(hi)).max() <= 1e-4 and \
            np.abs(hi).max() <= top + 1e-4
        if not good:
          # the one known way this fails (known_findings.json): the export
          # computes weight*2^bits/2^integer without dividing by the
          # quantizer's scale, i.e. integer_code * exposed scale
          known_form = hi.shape == w64.shape and np.abs(
              hi - w64 * m / m_i).max() <= 1e-6 * max(1e-30, np.abs(hi).max())
          if known_form:
            ctx.violation("export|auto-po2-integer-weight-not-divided-by-scale",
                          "dictionary 'weights' entry of %s.%s is weight*2^%d/"
                          "2^%d = integer code * quantizer.scale (scale %r), "
                          "so scale*entry != stored weight%s" % (
                              l.name, nm, ub, int(q.integer),
                              np.unique(s_exp)[:3].tolist(), tag))
            # a known finding does not stop the run; other checks continue
          else:
            ctx.violation("export|%s|auto-po2-integer-weight-wrong:%s" % (
                cls, nm), "scale*integer differs from the stored weight, "
                          "integers non-integral or out of range for %s.%s "
                          "(and not the known weight*m/m_i form)%s" % (
                              l.name, nm, tag))
            return False
      else:
        if h.shape != w.shape or not np.array_equal(h, w, equal_nan=True):
          ctx.violation("export|%s|dictionary-weight-differs:%s" % (cls, nm),
                        "dictionary entry differs from the stored weight for "
                        "%s.%s%s" % (l.name, nm, tag))
          return False
  return check_bn_fusing(ctx, model, hw)


def expected_fusable(model):
  """Independent of the library's graph code: a QConv2D / QDepthwiseConv2D
  whose output has exactly one consumer, a QBatchNormalization."""
  out = {}
  for l in model.layers:
    if type(l).__name__ not in ("QConv2D", "QDepthwiseConv2D"):
      continue
    consumers = []
    for node in l._outbound_nodes:
      consumers.append(node.outbound_layer)
    if len(consumers) == 1 and type(consumers[0]).__name__ == \
        "QBatchNormalization":
      out[l.name] = consumers[0].name
  return out


def check_bn_fusing(ctx, model, hw):
  """bn_inv / fused_bias from the BN algebra on the quantized parameters."""
  layers = model.layers
  want = expected_fusable(model)
  ctx.checked()
  for l in layers:
    d = hw.get(l.name)
    if d is None:
      continue
    got = d.get("fused_bn_layer_name")
    if l.name in want and got != want[l.name]:
      ctx.violation("export|bn-fusing|fusable-pair-not-fused",
                    "%s is followed only by %s but the dictionary has "
                    "fused_bn_layer_name=%r" % (l.name, want[l.name], got))
      return False
    if l.name not in want and got:
      ctx.violation("export|bn-fusing|spurious-fusion",
                    "%s is not followed by a fusable batch-norm but carries "
                    "fused_bn_layer_name=%r" % (l.name, got))
      return False
    if type(l).__name__ == "QBatchNormalization":
      fused = l.name in want.values()
      if bool(d.get("enable_bn_fusing")) != fused:
        ctx.violation("export|bn-fusing|bn-layer-flag-wrong",
                      "%s enable_bn_fusing=%r, expected %r" % (
                          l.name, d.get("enable_bn_fusing"), fused))
        return False
  for i, l in enumerate(layers):
    d = hw.get(l.name) or {}
    if not d.get("fused_bn_layer_name"):
      continue
    bn = model.get_layer(d["fused_bn_layer_name"])
    ctx.checked()
    ctx.probe("bn_fusing_checked")
    ws = {v.name.split("/")[-1].split(":")[0]: w
          for v, w in zip(bn.weights, bn.get_weights())}
    # the BN layer itself has been exported too: its weights ARE the
    # quantized parameters
    gamma = ws.get("gamma", 1.0)
    beta = ws.get("beta", 0.0)
    mean = ws["moving_mean"]
    var = ws["moving_variance"]
    inv = np.asarray(gamma, np.float64) / np.sqrt(
        np.asarray(var, np.float64) + bn.epsilon)
    if bn.inverse_quantizer_internal is not None:
      inv = apply_q(bn.inverse_quantizer_internal,
                    inv.astype(np.float32)).astype(np.float64)
    if l.use_bias:
      pb = l.get_weights()[-1].astype(np.float64)
    else:
      pb = 0.0
    fb = inv * pb + np.asarray(beta, np.float64) - inv * mean
    got_inv = np.asarray(d["bn_inv"], np.float64)
    got_fb = np.asarray(d["fused_bias"], np.float64)
    tol = lambda a: 1e-5 * np.maximum(np.abs(a), 1e-6) + 1e-7
    if got_inv.shape != inv.shape or (np.abs(got_inv - inv) > tol(inv)).any():
      ctx.violation("export|bn-fusing|inverse-mismatch",
                    "bn_inv of %s differs from gamma/sqrt(var+eps) on the "
                    "quantized parameters (max %g)" % (l.name, float(np.abs(
                        got_inv - inv).max()) if got_inv.shape == inv.shape
                                                       else -1))
      return False
    if got_fb.shape != np.shape(fb) or (np.abs(got_fb - fb) > tol(fb) +
                                        1e-5 * np.abs(inv * mean)).any():
      ctx.violation("export|bn-fusing|fused-bias-mismatch",
                    "fused_bias of %s differs from inv*bias+beta-inv*mean "
                    "(max %g)" % (l.name, float(np.abs(got_fb - fb).max())
                                  if got_fb.shape == np.shape(fb) else -1))
      return False
  return True


def dict_equal(a, b):
  if sorted(a) != sorted(b):
    return False
  for k in a:
    for kk in set(a[k]) | set(b[k]):
      va, vb = a[k].get(kk), b[k].get(kk)
      if isinstance(va, (list, tuple)):
        if not isinstance(vb, (list, tuple)) or len(va) != len(vb):
          return False
        for x, y in zip(va, vb):
          if not np.array_equal(np.asarray(x), np.asarray(y), equal_nan=True):
            return False
      elif isinstance(va, np.ndarray) or isinstance(vb, np.ndarray):
        if not np.array_equal(np.asarray(va), np.asarray(vb), equal_nan=True):
          return False
      elif va != vb:
        return False
  return True


class World:
  def __init__(self, ctx, scn):
    self.ctx = ctx
    self.mspec = scn["world"]
    self.scratch = M.Scratch()
    ok, self.model = guard(ctx, "build-model", M.build_model, self.mspec)
    if not ok:
      raise StopRun()
    self.x = M.probe_batch(self.mspec)
    self.nexp = 0

  def fresh_copy(self, weights):
    if getattr(self, "frozen_json", None):
      from qkeras import utils as qu
      m = qu.quantized_model_from_json(self.frozen_json)
    else:
      m = M.build_model(self.mspec)
    m.set_weights(weights)
    return m


def do_export(ctx, w, model, filename=None, what="export"):
  from qkeras import utils as qu
  ok, hw = guard(ctx, what, qu.model_save_quantized_weights, model, filename,
                 always=False)
  return ok, hw


def op_export(ctx, w, op):
  tf = tf_setup()
  from qkeras import utils as qu
  model = w.model
  di = is_data_independent(model)
  ok, y0 = guard(ctx, "predict", M.predict, model, w.x)
  if not ok:
    return
  ok, exp = guard(ctx, "quantize-weights", expected_export, model)
  if not ok:
    return
  fn = w.scratch.path("exp%d.h5" % w.nexp) if op.get("file") else None
  w.nexp += 1
  ok, hw = do_export(ctx, w, model, fn)
  ctx.fault("export" + ("_to_file" if fn else ""))
  if not ok:
    return
  if not check_export(ctx, model, exp, hw):
    return
  after = M.weights_snapshot(model)
  if fn:
    ctx.checked()
    ctx.probe("export_file_reloaded")
    m2 = qu.quantized_model_from_json(model.to_json())
    if not os.path.exists(fn):
      ctx.violation("export|file-not-written",
                    "a filename was given but no file exists after the export")
      return
    m2.load_weights(fn)
    if not M.same_weights(after, m2.get_weights()):
      ctx.violation("export|file-does-not-hold-exported-weights",
                    "weights loaded from the written file differ from the "
                    "exported weights")
      return
  ca = const_alpha_layers(model)
  if ca and not di:
    # second export: layers without such a quantizer must not change; the
    # ones with it are the known finding when they do
    per_layer = {l.name: [np.copy(x) for x in l.get_weights()]
                 for l in exported_layers(model)}
    dep = {l.name for l in exported_layers(model) for nm, q in role_pairs(l)
           if q is not None and isinstance(getattr(q, "alpha", None), str)
           and getattr(q, "post_training_scale", None) is None}
    ok, _ = do_export(ctx, w, model, None)
    ctx.fault("second_export")
    if not ok:
      return
    ctx.checked()
    for l in exported_layers(model):
      same = M.same_weights(per_layer[l.name], l.get_weights())
      if l.name in ca:
        if not same:
          ctx.violation("export|%s-not-idempotent" % ca[l.name],
                        "a second export changed %s: its weight quantizer is "
                        "not idempotent although its scale is constant (%s)" % (
                            l.name, ca[l.name]))
      elif l.name not in dep and not same:
        ctx.violation("export|second-export-changes-weights",
                      "a second export changed %s (%s)" % (
                          l.name, type(l).__name__))
        return
    after = M.weights_snapshot(model)
  if di:
    ctx.checked()
    ctx.probe("data_independent_model")
    y1 = M.predict(model, w.x)
    err = np.abs(y1.astype(np.float64) - y0)
    if (err > 1e-6 * np.maximum(np.abs(y0), 1e-3)).any():
      ctx.violation("export|predictions-changed|%s" % ";".join(sorted(
          {type(l).__name__ for l in exported_layers(model)
           if l.get_weights()})[:4]),
          "data-independent scales but predictions moved by %g" % float(
              err.max()))
      return
    ok, hw2 = do_export(ctx, w, model, None)
    ctx.fault("second_export")
    if not ok:
      return
    ctx.checked()
    if not M.same_weights(after, M.weights_snapshot(model)):
      bad = [type(l).__name__ for l in exported_layers(model)]
      ctx.violation("export|second-export-changes-weights",
                    "a second export changed weights (layers %r)" % bad[:4])
      return
    if not dict_equal(hw, hw2):
      ctx.violation("export|second-export-changes-dictionary",
                    "a second export returned a different dictionary")
      return
  ctx.log("w", *after)


class _CrashAt:
  """Make the k-th exported layer's set_weights raise (instance-level)."""

  def __init__(self, model, k):
    self.layers = [l for l in exported_layers(model)
                   if type(l).__name__ not in FOLDED]
    self.k = k
    self.saved = None
    self.model = model

  def __enter__(self):
    if self.k < len(self.layers):
      l = self.layers[self.k]

      def boom(weights, _l=l):
        raise InjectedFault("crash before set_weights of %s" % _l.name)
      self.saved = (l, l.__dict__.get("set_weights"))
      l.set_weights = boom
    else:
      m = self.model

      def boom2(*a, **kw):
        raise InjectedFault("crash in the final save_weights")
      self.saved = (m, m.__dict__.get("save_weights"))
      m.save_weights = boom2
    return self

  def __exit__(self, *a):
    obj, old = self.saved
    attr = "set_weights" if self.k < len(self.layers) else "save_weights"
    if old is None:
      try:
        delattr(obj, attr)
      except AttributeError:
        obj.__dict__.pop(attr, None)
    else:
      setattr(obj, attr, old)


def op_crash_all(ctx, w, op):
  """Enumerate every crash point of the export of the current model."""
  from qkeras import utils as qu
  base = M.weights_snapshot(w.model)
  di = is_data_independent(w.model)
  ok, ref = guard(ctx, "build-model", w.fresh_copy, base)
  if not ok:
    return
  ok, hw_ref = do_export(ctx, w, ref)
  if not ok:
    return
  w_ref = M.weights_snapshot(ref)
  L = len([l for l in exported_layers(ref) if type(l).__name__ not in FOLDED])
  for k in range(L + 1):
    m = w.fresh_copy(base)
    fn = w.scratch.path("crash%d.h5" % k)
    raised = False
    try:
      with _CrashAt(m, k):
        qu.model_save_quantized_weights(m, fn)
    except InjectedFault:
      raised = True
    ctx.fault("export_crash_at_layer" if k < L else "export_crash_in_final_save")
    if k == L - 1:
      ctx.probe("export_crash_at_last_layer")
    if not raised:
      raise HarnessError("crash point %d did not fire" % k)
    # retry: a clean export after the interrupted one
    ok, exp = guard(ctx, "quantize-weights", expected_export, m)
    if not ok:
      return
    ok, hw2 = do_export(ctx, w, m, None, what="export-after-crash")
    if not ok:
      return
    ctx.checked()
    # the per-layer relation must hold for the retry whatever the scales are
    if not check_export(ctx, m, exp, hw2, tag=" (retry after crash at %d/%d)" % (
        k, L)):
      return
    if di:
      ctx.checked()
      ctx.probe("crash_retry_compared_with_uninterrupted")
      if not M.same_weights(w_ref, M.weights_snapshot(m)):
        ctx.violation("export|retry-after-crash-differs|weights",
                      "crash at step %d of %d then a clean export: weights "
                      "differ from an uninterrupted export" % (k, L))
        return
      if not dict_equal(hw_ref, hw2):
        ctx.violation("export|retry-after-crash-differs|dictionary",
                      "crash at step %d of %d then a clean export: dictionary "
                      "differs from an uninterrupted export" % (k, L))
        return
  ctx.probe("crash_points_enumerated", L + 1)


def op_freeze(ctx, w, op):
  """clone_model_and_freeze_auto_po2_scale: the returned model carries frozen
  post-training scales, so from here on it counts as data independent and the
  export clauses (predictions unchanged, second export changes nothing) are
  judged strictly on it."""
  from qkeras import utils as qu
  hw_mode = bool(op.get("hw"))
  before = M.weights_snapshot(w.model)
  ok, res = guard(ctx, "freeze", qu.clone_model_and_freeze_auto_po2_scale,
                  w.model, None, hw_mode)
  ctx.fault("freeze_auto_po2" + ("_hw" if hw_mode else ""))
  if not ok:
    return
  new_model, hw = res
  ctx.checked()
  if not M.same_weights(before, M.weights_snapshot(w.model)):
    ctx.violation("freeze|original-model-modified",
                  "the freezing utility changed the weights of the model it "
                  "was given")
    return
  old_cls = [type(l).__name__ for l in w.model.layers]
  new_cls = [type(l).__name__ for l in new_model.layers]
  if old_cls != new_cls:
    ctx.violation("freeze|architecture-changed",
                  "layers %r became %r" % (old_cls, new_cls))
    return
  for l in exported_layers(new_model):
    for nm, q in role_pairs(l):
      if q is None or getattr(q, "alpha", None) != "auto_po2":
        continue
      if getattr(q, "post_training_scale", None) is None:
        ctx.violation("freeze|%s|auto-po2-scale-not-frozen" % type(l).__name__,
                      "%s of %s still has a data-dependent scale after the "
                      "freezing utility" % (nm, l.name))
        return
      ctx.probe("frozen_quantizers")
  if not hw_mode:
    if not M.same_weights(before, M.weights_snapshot(new_model)):
      ctx.violation("freeze|weights-not-copied",
                    "the frozen model does not hold the original weights")
      return
  w.model = new_model
  w.frozen_json = new_model.to_json()
  ctx.probe("continued_on_frozen_model")


def op_other_model(ctx, w, op):
  """History of exports in one process: ANOTHER model of the same name (and a
  different topology) is exported first, completely or interrupted; the main
  model's export must not be influenced by it."""
  from qkeras import utils as qu
  ok, m2 = guard(ctx, "build-model", M.build_model, op["world2"])
  if not ok:
    return
  crash = op.get("crash")
  try:
    if crash is None:
      qu.model_save_quantized_weights(m2)
    else:
      with _CrashAt(m2, int(crash) % (1 + len([
          l for l in exported_layers(m2)
          if type(l).__name__ not in FOLDED]))):
        qu.model_save_quantized_weights(m2, w.scratch.path("other.h5"))
  except InjectedFault:
    ctx.fault("other_model_export_interrupted")
  except Exception as e:  # pylint: disable=broad-except
    from .core import repo_frames
    if not repo_frames(e):
      raise
    ctx.probe("other_model_export_raised")
    return
  ctx.fault("other_model_same_name_exported_before")


def apply_op(ctx, w, op):
  k = op["k"]
  ctx.log("op", k)
  if k == "OTHER":
    op_other_model(ctx, w, op)
  elif k == "EXPORT":
    op_export(ctx, w, op)
  elif k == "CRASH_ALL":
    op_crash_all(ctx, w, op)
  elif k == "PERTURB":
    M.set_seeded_weights(w.model, op["seed"], op.get("scale", 1.0))
    ctx.fault("perturb_weights")
  elif k == "FREEZE":
    op_freeze(ctx, w, op)
  else:
    raise HarnessError("op " + k)


def execute(scn, known=(), stop=True):
  ctx = Ctx("C14", known, stop_on_violation=stop)
  fresh_session(int(scn.get("seed", 0)))
  w = None
  import contextlib
  import io
  try:
    with contextlib.redirect_stdout(io.StringIO()):
      w = World(ctx, scn)
      for i, op in enumerate(scn["ops"]):
        ctx.step = i
        apply_op(ctx, w, op)
      ctx.step = len(scn["ops"])
  except StopRun:
    pass
  finally:
    if w is not None:
      w.scratch.close()
    set_phase(0)
  return ctx.result()


# ---------------------------------------------------------------------------
ENGINE = "M"
LEVEL = "fault_enumeration"
RULE = ("scenario = generated quantized model (weight-bearing quantized layers "
        "incl. separable/depthwise/recurrent/bidirectional/scale-shift, po2 / "
        "auto_po2 / binary / ternary / fixed-point quantizers, optional "
        "following QBatchNormalization with center/scale on or off) + ops "
        "(EXPORT with or without file, second export, PERTURB, FREEZE via the "
        "library utility, CRASH_ALL = crash the export at EVERY set_weights "
        "boundary and in the final file write, then retry); crash points are "
        "enumerated per model, models/weights are sampled; non-trivial = a "
        "fault (export, crash point, second export, freeze, perturbation) "
        "fired and an oracle check ran afterwards; distinct = distinct "
        "(op-kind sequence, fired fault kinds, layer/quantizer-class bucket)")
REAL = ["qkeras.utils.model_save_quantized_weights / find_bn_fusing_layer_pair "
        "/ add_bn_fusing_weights / clone_model_and_freeze_auto_po2_scale",
        "qkeras layers and quantizers", "tf_keras save_weights/load_weights "
        "(real HDF5 files in a scratch directory)"]
STUB = ["crash points: instance-level wrapper making the k-th "
        "layer.set_weights / the final model.save_weights raise"]


def gen_c14_model(rng):
  di = rng.chance(0.6)
  m = M.gen_model(rng, data_independent=di, max_layers=4)
  # optional fusable batch-norm after a conv / depthwise layer
  out = []
  for l in m["layers"]:
    out.append(l)
    if l["t"] in ("QConv2D", "QDepthwiseConv2D") and rng.chance(0.4):
      bn = M._t_qbn(rng, True)
      if rng.chance(0.25):
        bn.pop("defaults", None)
        bn.update({"gq": None, "vq": None, "beq": bn.get("beq"),
                   "mq": bn.get("mq"),
                   "iq": {"cls": "quantized_bits",
                          "kw": {"bits": 8, "integer": 2}}})
      out.append(bn)
  m["layers"] = out
  m.pop("branch", None)
  # a qnoise_factor < 1 is a transient training state: exported models are
  # fully quantizing
  for l in m["layers"]:
    for k, v in l.items():
      if isinstance(v, dict) and isinstance(v.get("kw"), dict):
        v["kw"].pop("qnoise_factor", None)
  return m


def gen_freeze_world(rng):
  """Sequential models inside the family the freezing utility supports."""
  qb = {"cls": "quantized_bits", "kw": {"bits": rng.pick([3, 4, 6]),
                                        "integer": rng.pick([0, 1]),
                                        "symmetric": 1}}
  qb8 = {"cls": "quantized_bits", "kw": {"bits": 8, "integer": 2}}

  def auto():
    kw = {"bits": rng.pick([2, 3, 4, 8]), "alpha": "auto_po2",
          "symmetric": rng.pick([0, 1])}
    if rng.chance(0.3):
      kw["integer"] = rng.pick([0, 1])
    if rng.chance(0.2):
      kw["scale_axis"] = None
    return {"cls": "quantized_bits", "kw": {k: v for k, v in kw.items()
                                            if v is not None}}

  def wq():
    return auto() if rng.chance(0.6) else qb

  layers = []
  for _ in range(rng.randint(1, 2)):
    if rng.chance(0.65):
      layers.append({"t": "QConv2D", "filters": rng.pick([2, 3]), "kernel": 2,
                     "strides": 1, "padding": rng.pick(["valid", "same"]),
                     "use_bias": rng.chance(0.7), "kq": wq(),
                     "bq": rng.pick([qb, qb8, None])})
    else:
      layers.append({"t": "QDepthwiseConv2D", "kernel": 2, "strides": 1,
                     "padding": "same", "depth_multiplier": rng.pick([1, 2]),
                     "use_bias": rng.chance(0.7), "dq": wq(),
                     "bq": rng.pick([qb, None])})
    if rng.chance(0.5):
      c, sc = rng.chance(0.8), rng.chance(0.8)
      bn = {"t": "QBatchNormalization", "center": c, "scale": sc}
      if rng.chance(0.5):
        bn["defaults"] = True
      else:
        bn.update({"gq": None, "beq": qb8, "mq": qb8, "vq": None,
                   "iq": auto() if rng.chance(0.6) else qb8})
      layers.append(bn)
    if rng.chance(0.4):
      layers.append({"t": "QActivation", "aq": {"str": "quantized_relu(4)"}})
  layers.append({"t": "Flatten"})
  if rng.chance(0.7):
    layers.append({"t": "QDense", "units": rng.pick([2, 3]),
                   "use_bias": rng.chance(0.7), "kq": wq(),
                   "bq": rng.pick([qb, None])})
  return {"input": "img", "wseed": rng.subseed() % 1000, "layers": layers,
          "out": rng.pick(["none", "none", "dense"])}


def generate(rng):
  if rng.chance(0.15):
    ops = [{"k": "FREEZE", "hw": rng.chance(0.3)}]
    if rng.chance(0.3):
      ops.append({"k": "PERTURB", "seed": rng.subseed(), "scale": 1.0})
    ops.append({"k": "EXPORT", "file": rng.chance(0.4)})
    if rng.chance(0.5):
      ops.append({"k": "CRASH_ALL"})
    return {"seed": rng.subseed(), "world": gen_freeze_world(rng), "ops": ops}
  world = gen_c14_model(rng)
  ops = []
  if rng.chance(0.3):
    ops.append({"k": "OTHER", "world2": gen_c14_model(rng),
                "crash": rng.pick([None, None, 0, 1, 2, 5])})
  if rng.chance(0.25):
    ops.append({"k": "PERTURB", "seed": rng.subseed(),
                "scale": rng.pick([1.0, 0.2, 3.0])})
  r = rng.random()
  if r < 0.45:
    ops.append({"k": "CRASH_ALL"})
  ops.append({"k": "EXPORT", "file": rng.chance(0.4)})
  if rng.chance(0.3):
    ops.append({"k": "PERTURB", "seed": rng.subseed(), "scale": 1.0})
    ops.append({"k": "EXPORT", "file": rng.chance(0.3)})
  return {"seed": rng.subseed(), "world": world, "ops": ops}


def directed():
  qb = {"cls": "quantized_bits", "kw": {"bits": 4, "integer": 0, "symmetric": 1}}
  qb8 = {"cls": "quantized_bits", "kw": {"bits": 8, "integer": 2}}
  auto = {"cls": "quantized_bits", "kw": {"bits": 4, "alpha": "auto_po2"}}
  po2 = {"cls": "quantized_po2", "kw": {"bits": 4}}
  binc = {"cls": "binary", "kw": {"alpha": 1.0}}
  bina = {"cls": "binary", "kw": {"alpha": "auto"}}
  tern = {"cls": "ternary", "kw": {"alpha": "auto_po2"}}
  out = []

  def conv(kq, bq, bias=True):
    return {"t": "QConv2D", "filters": 2, "kernel": 2, "strides": 1,
            "padding": "valid", "use_bias": bias, "kq": kq, "bq": bq}

  def bn(center=True, scale=True, **kw):
    d = {"t": "QBatchNormalization", "center": center, "scale": scale}
    if kw:
      d.update(kw)
    else:
      d["defaults"] = True
    return d
  models = []
  for kq in (qb, auto, po2, binc, bina, tern):
    for bq in (qb, po2, None):
      models.append(("img", [conv(kq, bq), {"t": "Flatten"}]))
  for c, s in ((True, True), (False, True), (True, False), (False, False)):
    models.append(("img", [conv(qb, qb), bn(c, s), {"t": "Flatten"}]))
    models.append(("img", [conv(auto, qb, bias=False), bn(
        c, s, gq=qb8, beq=qb8, mq=qb8,
        vq={"cls": "quantized_bits", "kw": {"bits": 8, "integer": 2,
                                            "keep_negative": False}}),
                           {"t": "Flatten"}]))
    models.append(("vec", [{"t": "QDense", "units": 3, "use_bias": True,
                            "kq": qb, "bq": qb}, bn(c, s)]))
  models.append(("img", [{"t": "QDepthwiseConv2D", "kernel": 2, "strides": 1,
                          "padding": "same", "depth_multiplier": 1,
                          "use_bias": True, "dq": qb, "bq": qb},
                         bn(True, True, gq=None, vq=None, beq=qb8, mq=qb8,
                            iq=qb8), {"t": "Flatten"}]))
  models.append(("img", [{"t": "QSeparableConv2D", "filters": 2, "kernel": 2,
                          "padding": "valid", "use_bias": True, "dq": qb,
                          "pq": po2, "bq": qb}, {"t": "Flatten"}]))
  models.append(("img", [{"t": "QAveragePooling2D", "pool": 2, "avq": None,
                          "aq": None}, {"t": "QScaleShift", "use_bias": True,
                                        "wq": qb, "bq": qb},
                         {"t": "Flatten"}]))
  for rnn in ("QSimpleRNN", "QLSTM", "QGRU"):
    for bidir in (False, True):
      for sq in (None, qb8):
        models.append(("seq", [{"t": rnn, "units": 2,
                                "return_sequences": False, "use_bias": True,
                                "kq": qb, "rq": po2, "bq": qb, "sq": sq,
                                "bidir": bidir}]))
  models.append(("seq", [{"t": "QConv1D", "filters": 2, "kernel": 2,
                          "padding": "same", "use_bias": True, "kq": auto,
                          "bq": qb}, {"t": "QSeparableConv1D", "filters": 2,
                                      "kernel": 2, "padding": "same",
                                      "use_bias": True, "dq": qb, "pq": qb,
                                      "bq": po2}, {"t": "Flatten"}]))
  for i, (kind, layers) in enumerate(models):
    out.append({"label": "directed:%d:%s" % (i, "+".join(
        l["t"] for l in layers)), "seed": 1,
                "world": {"input": kind, "layers": layers, "wseed": 11 + i,
                          "out": ["dense", "qdense", "none"][i % 3]},
                "ops": [{"k": "CRASH_ALL"}, {"k": "EXPORT", "file": True},
                        {"k": "PERTURB", "seed": 4, "scale": 1.0},
                        {"k": "EXPORT", "file": False}]})
  # histories of exports of different models that share a name
  a = {"input": "img", "wseed": 31, "out": "dense", "layers": [
      conv(qb, qb), {"t": "QActivation", "aq": {"str": "quantized_relu(4)"}},
      bn(True, True), {"t": "Flatten"}]}
  b = {"input": "img", "wseed": 32, "out": "dense", "layers": [
      conv(qb, qb), bn(True, True),
      {"t": "QActivation", "aq": {"str": "quantized_relu(4)"}},
      {"t": "Flatten"}]}
  for first, second, crash in ((a, b, None), (b, a, None), (a, b, 1),
                               (b, a, 0)):
    out.append({"label": "directed:other-model-same-name:%s" % (
        "crash%s" % crash if crash is not None else "complete"), "seed": 1,
                "world": second, "ops": [
                    {"k": "OTHER", "world2": first, "crash": crash},
                    {"k": "EXPORT", "file": False}, {"k": "CRASH_ALL"}]})
  out.append({"label": "directed:po2-kernel-relu-po2-bias", "seed": 1, "world": {
      "input": "vec", "wseed": 23, "out": "none", "layers": [{
          "t": "QDense", "units": 3, "use_bias": True, "kq": po2,
          "bq": {"cls": "quantized_relu_po2", "kw": {"bits": 4}}}]},
              "ops": [{"k": "EXPORT", "file": False}]})
  out.append({"label": "directed:binary-use_01", "seed": 1, "world": {
      "input": "vec", "wseed": 22, "layers": [{
          "t": "QDense", "units": 3, "use_bias": True, "kq": {
              "cls": "binary", "kw": {"use_01": True, "alpha": 1.0}},
          "bq": qb}]}, "ops": [{"k": "EXPORT", "file": False}]})
  out.append({"label": "directed:constant-alpha", "seed": 1, "world": {
      "input": "vec", "wseed": 21, "layers": [{
          "t": "QDense", "units": 3, "use_bias": True, "kq": {
              "cls": "quantized_bits", "kw": {"bits": 4, "integer": 0,
                                              "symmetric": 1, "alpha": 2.0}},
          "bq": qb}]}, "ops": [{"k": "EXPORT", "file": False}]})
  # scenarios that carry their own history (another model exported first)
  # run first: every worker then meets them with a clean process state
  out.sort(key=lambda sc: 0 if sc["label"].startswith(
      "directed:other-model") else 1)
  # freeze pipeline: auto_po2 -> frozen -> export is repeatable
  frz = {"input": "img", "wseed": 3, "layers": [
      conv(auto, qb), bn(True, True), {"t": "QActivation", "aq": {
          "str": "quantized_relu(4)"}}, {"t": "Flatten"},
      {"t": "QDense", "units": 3, "use_bias": True, "kq": auto, "bq": qb}]}
  out.append({"label": "directed:freeze", "seed": 1, "world": frz,
              "ops": [{"k": "FREEZE"}, {"k": "EXPORT", "file": False},
                      {"k": "CRASH_ALL"}]})
  return out


def simplify(scn):
  ls = scn["world"]["layers"]
  for i in range(len(ls)):
    if len(ls) > 1 and ls[i]["t"] != "Flatten":
      c = json.loads(json.dumps(scn))
      del c["world"]["layers"][i]
      yield c
  for i, l in enumerate(ls):
    for key in ("kq", "bq", "aq", "dq", "pq", "rq", "sq", "gq", "beq", "mq",
                "vq"):
      if l.get(key) is not None:
        c = json.loads(json.dumps(scn))
        c["world"]["layers"][i][key] = None
        yield c
    for key in ("bidir",):
      if l.get(key):
        c = json.loads(json.dumps(scn))
        del c["world"]["layers"][i][key]
        yield c
  for i, op in enumerate(scn["ops"]):
    if op.get("file"):
      c = json.loads(json.dumps(scn))
      c["ops"][i]["file"] = False
      yield c


def bucket(scn):
  out = []
  for l in scn["world"]["layers"]:
    qs = sorted(str((l.get(k) or {}).get("cls", (l.get(k) or {}).get("str")))
                for k in ("kq", "bq", "dq", "pq", "rq", "sq", "gq", "beq", "mq",
                          "vq", "iq") if l.get(k))
    out.append((l["t"], qs, bool(l.get("bidir")), l.get("center"),
                l.get("scale")))
  return [scn["world"]["input"], out]
