"""C20 - AutoQKeras hyper-model as a stateful server driven by a fake tuner.

AutoQKHyperModel keeps state between requests (pattern groups, the adjusted
limit table, the target's cached reference size and last trial size, the
reference model and its optimizer).  keras-tuner re-invokes build() for
retries and for the best model, may run trials in any order, and a trial may
die inside build().  The fake tuner owns real keras_tuner HyperParameters
objects: it discovers the search space with an empty assignment and then
issues trials whose assignments it derives from a seed; duplicates, reordered
batches, builds that crash at the k-th hp.Choice/Fixed or right after
quantize_model, and block sequencing with a shared target (what
AutoQKerasScheduler.fit does) are the injected faults.

Per-trial oracle (independent of qkeras' own bookkeeping), history oracle
(trial model == what a FRESH hyper-model builds for the same assignment) and
the forgiving-factor clauses.
"""
import json
import re

import numpy as np

from .core import Ctx, HarnessError, InjectedFault, StopRun, guard, derive_seed
from .seams import fresh_session, set_phase, tf_setup

REGISTERED = ["Dense", "Conv1D", "Conv2D", "DepthwiseConv2D", "SimpleRNN",
              "LSTM", "GRU", "Bidirectional", "Conv2DTranspose",
              "SeparableConv1D", "SeparableConv2D"]
SEQUENCE = ["SimpleRNN", "LSTM", "GRU", "Bidirectional"]
FILTER_RANGE = [0.5, 0.75, 1.0, 1.5, 2.0]

QCONFIG = {
    "kernel": {"binary": 1, "ternary": 2, "quantized_bits(2,1,1,alpha=1.0)": 2,
               "quantized_bits(4,0,1)": 4, "quantized_bits(6,0,1)": 6,
               "quantized_bits(8,0,1)": 8, "quantized_po2(4,1)": 4},
    "bias": {"quantized_bits(4,0,1)": 4, "quantized_bits(8,3,1)": 8,
             "quantized_po2(4,8)": 4, "quantized_bits(2,0,1)": 2},
    "activation": {"binary": 1, "ternary": 2, "quantized_relu(3,1)": 3,
                   "quantized_relu(4,2)": 4, "quantized_relu(6,2)": 6,
                   "quantized_relu(8,2)": 8, "quantized_relu(16,8)": 16},
    "linear": {"binary": 1, "ternary": 2, "quantized_bits(4,1)": 4,
               "quantized_bits(8,2)": 8, "quantized_bits(16,10)": 16},
    "recurrent_kernel": {"binary": 1, "quantized_bits(4,0,1)": 4,
                         "quantized_bits(8,0,1)": 8},
    "pointwise_kernel": {"binary": 1, "quantized_bits(4,0,1)": 4,
                         "quantized_bits(8,0,1)": 8},
    "recurrent_activation": {"binary": 1, "quantized_relu(4,2)": 4,
                             "quantized_sigmoid(8)": 8},
}


# ---------------------------------------------------------------------------
def build_reference(wspec):
  tf = tf_setup()
  import tf_keras as keras
  L = keras.layers
  kind = wspec["input"]
  shape = {"img": (6, 6, 2), "vec": (5,), "seq": (4, 3)}[kind]
  inp = keras.Input(shape, name="in")
  x = inp
  for i, l in enumerate(wspec["layers"]):
    t = l["t"]
    name = l["name"]
    if t == "Dense":
      x = L.Dense(l["units"], activation=l.get("act"), use_bias=l.get(
          "use_bias", True), name=name)(x)
    elif t == "Conv2D":
      x = L.Conv2D(l["filters"], l["kernel"], padding="same",
                   activation=l.get("act"), use_bias=l.get("use_bias", True),
                   name=name)(x)
    elif t == "DepthwiseConv2D":
      x = L.DepthwiseConv2D(l["kernel"], padding="same",
                            use_bias=l.get("use_bias", True), name=name)(x)
    elif t == "SeparableConv2D":
      x = L.SeparableConv2D(l["filters"], l["kernel"], padding="same",
                            use_bias=l.get("use_bias", True), name=name)(x)
    elif t in ("LSTM", "GRU", "SimpleRNN"):
      x = getattr(L, t)(l["units"], return_sequences=l.get("seq", False),
                        name=name)(x)
    elif t == "QDense":
      import qkeras as qk
      x = qk.QDense(l["units"], kernel_quantizer=l.get("kq"),
                    bias_quantizer=l.get("bq"), activation=l.get("aq"),
                    name=name)(x)
    elif t == "QConv2D":
      import qkeras as qk
      x = qk.QConv2D(l["filters"], l["kernel"], padding="same",
                     kernel_quantizer=l.get("kq"), bias_quantizer=l.get("bq"),
                     name=name)(x)
    elif t == "QActivation":
      import qkeras as qk
      from qkeras.quantizers import get_quantizer
      x = qk.QActivation(get_quantizer(l["aq"]) if l.get("obj") else l["aq"],
                         name=name)(x)
    elif t == "Activation":
      x = L.Activation(l["act"], name=name)(x)
    elif t == "Flatten":
      x = L.Flatten(name=name)(x)
    else:
      raise HarnessError(t)
  m = keras.Model(inp, x, name="ref")
  m.compile(optimizer=keras.optimizers.SGD(0.02), loss="mse", metrics=["acc"])
  g = np.random.Generator(np.random.PCG64(int(wspec.get("wseed", 0))))
  m.set_weights([g.standard_normal(w.shape).astype(np.float32) * 0.3
                 for w in m.get_weights()])
  return m


def make_target(tspec):
  from qkeras.autoqkeras.forgiving_metrics import forgiving_bits
  return forgiving_bits.ForgivingFactorBits(
      tspec["delta_p"], tspec["delta_n"], tspec["rate"],
      stress=tspec.get("stress", 1.0), input_bits=tspec.get("input_bits", 8),
      output_bits=tspec.get("output_bits", 8), ref_bits=tspec.get("ref_bits", 8),
      config={"default": ["parameters", "activations"]})


def make_hyper(model, wspec, target, limit=None, frozen=None):
  from qkeras.autoqkeras.autoqkeras_internal import AutoQKHyperModel
  import copy
  return AutoQKHyperModel(
      model, ["acc"], target=target, transfer_weights=wspec.get(
          "transfer_weights", False), frozen_layers=frozen,
      activation_bits=wspec.get("activation_bits", 4),
      limit=copy.deepcopy(limit if limit is not None else wspec["limit"]),
      tune_filters=wspec.get("tune_filters", "none"),
      tune_filters_exceptions=wspec.get("tune_filters_exceptions", "^$"),
      layer_indexes=wspec.get("layer_indexes"),
      learning_rate_optimizer=wspec.get("lr_opt", False),
      quantization_config=json.loads(json.dumps(QCONFIG)))


def new_hp(assign=None, crash_at=None):
  import keras_tuner as kt

  class HP(kt.HyperParameters):
    """Real HyperParameters; counts requests and can die at the k-th one."""
    _n = 0

    def _tick(self):
      self._n += 1
      if crash_at is not None and self._n == crash_at:
        raise InjectedFault("tuner connection lost at request %d" % self._n)

    def Choice(self, *a, **kw):
      self._tick()
      return super().Choice(*a, **kw)

    def Fixed(self, *a, **kw):
      self._tick()
      return super().Fixed(*a, **kw)
  hp = HP()
  if assign:
    hp.values.update(assign)
  return hp


def quiet(fn, *a, **kw):
  import contextlib
  import io
  with contextlib.redirect_stdout(io.StringIO()):
    return fn(*a, **kw)


def space_of(hp):
  out = {}
  for p in hp.space:
    vals = getattr(p, "values", None)
    if vals is None:
      vals = [p.value]
    out[p.name] = list(vals)
  return out


def assignment(space, aseed):
  a = {}
  for name in sorted(space):
    vals = space[name]
    a[name] = vals[derive_seed(aseed, name) % len(vals)]
  return a


# ---------------------------------------------------------------------------
def canon(s, role):
  """Canonical printed form of a configured quantizer string as a layer of
  that role would hold it."""
  from qkeras.quantizers import get_quantizer
  q = get_quantizer(s)
  if role in ("kernel", "pointwise_kernel", "recurrent_kernel") and hasattr(
      q, "_set_trainable_parameter"):
    q._set_trainable_parameter()
  return str(q)


def allowed(role, lim):
  cfg = QCONFIG[role]
  if isinstance(lim, list):
    keys = [k for k in lim]
  else:
    keys = [k for k, b in cfg.items() if b <= lim]
  lrole = "kernel" if role in ("pointwise_kernel", "recurrent_kernel") else role
  return {canon(k, lrole): k for k in keys}


def act_name(layer):
  a = getattr(layer, "activation", None)
  if a is None:
    return None
  if isinstance(a, str):
    return a
  return getattr(a, "__name__", type(a).__name__)


def expected_limits(limit):
  """The limit table completed from 'default' as the hyper-model documents:
  '{"Conv2D":[weight,bias,activation], "RNN":[weight,bias,recurrent,
  activation], "default": value}' where default replaces missing values.
  Computed independently of the hyper-model's own bookkeeping."""
  d = limit.get("default")
  if d is None:
    d = 8
  dl = list(d) if isinstance(d, list) else [d] * 3
  out = {}
  for k, v in limit.items():
    v = list(v) if isinstance(v, list) else v
    if k in REGISTERED and isinstance(v, list):
      if k in SEQUENCE and len(v) < 4:
        # [weight, bias, recurrent, activation] from a 4-element default
        v = v + dl[len(v):]
      elif k not in SEQUENCE and len(v) < 3:
        kb = dl[:2]
        v = v + kb[len(v):] + [dl[-1]]
    out[k] = v
  return out


def limit_key(limit, name, cls):
  for pat in limit:
    if re.match(pat, name):
      return pat, True
  if cls in limit:
    return cls, False
  return None, False


def _cfg_default(o):
  # objects inside a layer config (a QActivation holds its quantizer object):
  # described by class and configuration, never by identity
  if hasattr(o, "get_config"):
    return {"class_name": type(o).__name__, "config": o.get_config()}
  if isinstance(o, np.generic):
    return o.item()
  if isinstance(o, np.ndarray):
    return o.tolist()
  return repr(o)


def layer_cfg(layer):
  return json.loads(json.dumps(layer.get_config(), sort_keys=True,
                               default=_cfg_default))


class Oracle:
  def __init__(self, ctx, wspec):
    self.ctx = ctx
    self.w = wspec
    self.deltas = []   # (trial_size, delta) per target lineage

  def check_trial(self, ref, hm, qm, assign, limit, tag=""):
    ctx, w = self.ctx, self.w
    lim = expected_limits(limit)
    idx = w.get("layer_indexes")
    names_r = [l.name for l in ref.layers]
    names_t = [l.name for l in qm.layers]
    ctx.checked()
    if names_r != names_t:
      ctx.violation("trial|layer-names-or-order-changed",
                    "%r vs %r%s" % (names_r, names_t, tag))
      return False
    groups = {}
    tune = w.get("tune_filters", "none")
    exc = re.compile(w.get("tune_filters_exceptions", "^$"))
    for i, (rl, tl) in enumerate(zip(ref.layers, qm.layers)):
      cls = type(rl).__name__
      tcls = type(tl).__name__
      selected = idx is None or i in idx
      key, is_pat = limit_key(limit, rl.name, cls)
      if cls in REGISTERED:
        if not selected or key is None:
          if tcls != cls:
            ctx.violation("trial|layer-outside-%s-was-quantized" % (
                "layer_indexes" if not selected else "limits"),
                "%s (%s, index %d) became %s%s" % (rl.name, cls, i, tcls, tag))
            return False
          if layer_cfg(rl) != layer_cfg(tl):
            ctx.violation("trial|untouched-layer-config-changed",
                          "%s config changed%s" % (rl.name, tag))
            return False
          continue
        L = lim[key]
        if tcls == cls:
          # the property does not require a selected layer to be quantized
          # (model_quantize leaves e.g. SeparableConv2D alone when it gets no
          # kernel_quantizer entry); an untouched layer must be unchanged
          ctx.probe("selected_layer_left_unquantized:" + cls)
          if layer_cfg(rl) != layer_cfg(tl) and tune == "none":
            ctx.violation("trial|untouched-layer-config-changed",
                          "%s config changed%s" % (rl.name, tag))
            return False
          continue
        if tcls != "Q" + cls:
          ctx.violation("trial|layer-class-unexpected",
                        "%s (%s) is %s, limit key %r%s" % (rl.name, cls, tcls,
                                                           key, tag))
          return False
        roles = []
        if cls in ("DepthwiseConv2D",):
          roles.append(("kernel", tl.depthwise_quantizer_internal, L[0]))
        elif cls in ("SeparableConv1D", "SeparableConv2D"):
          roles.append(("kernel", tl.depthwise_quantizer_internal, L[0]))
          roles.append(("kernel", tl.pointwise_quantizer_internal, L[0]))
        elif cls in ("LSTM", "GRU", "SimpleRNN"):
          roles.append(("kernel", tl.cell.kernel_quantizer_internal, L[0]))
          # pointwise / recurrent kernels draw from the kernel section with
          # the kernel limit ("limit is same as kernel" in the hyper-model)
          roles.append(("kernel", tl.cell.recurrent_quantizer_internal, L[0]))
        else:
          roles.append(("kernel", tl.kernel_quantizer_internal, L[0]))
        use_bias = rl.use_bias if hasattr(rl, "use_bias") else rl.cell.use_bias
        if use_bias:
          bq = (tl.cell.bias_quantizer_internal if hasattr(tl, "cell")
                else tl.bias_quantizer_internal)
          roles.append(("bias", bq, L[1]))
        an = act_name(rl)
        if cls not in SEQUENCE and an not in (None, "linear", "softmax"):
          roles.append(("activation", tl.activation, L[-1]))
        if cls in ("LSTM", "GRU", "SimpleRNN") and an not in (
            None, "linear", "softmax"):
          roles.append(("activation", tl.cell.activation, L[-1]))
        if cls in ("LSTM", "GRU"):
          # limit list is [kernel, bias, recurrent, activation]: the recurrent
          # ACTIVATION is an activation and obeys the last entry
          roles.append(("recurrent_activation", tl.cell.recurrent_activation,
                        L[-1]))
        for role, q, l_ in roles:
          ok = allowed(role, l_)
          got = None if q is None else str(q)
          ctx.checked()
          if got not in ok:
            over = None
            for r2 in QCONFIG:
              for k2, b2 in QCONFIG[r2].items():
                if got == canon(k2, "kernel" if "kernel" in r2 else r2):
                  over = (r2, k2, b2)
            ctx.violation("trial|%s-quantizer-not-allowed|%s|%s" % (
                role, cls, "over-limit" if over and not isinstance(l_, list)
                and over[2] > l_ else "not-from-config"),
                "%s.%s holds %s; allowed for limit %r: %r%s" % (
                    rl.name, role, got, l_, sorted(ok.values()), tag))
            return False
          if is_pat:
            groups.setdefault((key, role), set()).add(got)
        # filter scaling
        if cls in ("Dense", "Conv1D", "Conv2D", "SeparableConv1D",
                   "SeparableConv2D"):
          scale = 1.0
          if tune == "layer" and not exc.search(rl.name):
            scale = assign.get("network_filters_" + rl.name, 1.0)
          elif tune == "block" and not exc.search(rl.name):
            scale = assign.get("network_filters", 1.0)
          attr = "units" if cls == "Dense" else "filters"
          want = max(int(getattr(rl, attr) * scale), 1)
          ctx.checked()
          if getattr(tl, attr) != want:
            ctx.violation("trial|filter-scaling-wrong",
                          "%s.%s is %d, reference %d x scale %r -> %d%s" % (
                              rl.name, attr, getattr(tl, attr),
                              getattr(rl, attr), scale, want, tag))
            return False
      elif cls == "Activation":
        an = act_name(rl)
        if an == "softmax" or not selected or key is None:
          if tcls != "Activation":
            ctx.violation("trial|activation-outside-limits-was-quantized",
                          "%s became %s%s" % (rl.name, tcls, tag))
            return False
          continue
        L = lim[key]
        if tcls != "QActivation":
          ctx.violation("trial|selected-activation-not-quantized",
                        "%s is %s%s" % (rl.name, tcls, tag))
          return False
        role = "linear" if an == "linear" else "activation"
        ok = allowed(role, L[-1])
        got = str(tl.quantizer)
        ctx.checked()
        if got not in ok:
          ctx.violation("trial|activation-quantizer-not-allowed|Activation",
                        "%s holds %s; allowed for limit %r: %r%s" % (
                            rl.name, got, L[-1], sorted(ok.values()), tag))
          return False
        if is_pat:
          groups.setdefault((key, role), set()).add(got)
      else:
        if tcls != cls and key is None:
          ctx.violation("trial|other-layer-changed",
                        "%s %s -> %s%s" % (rl.name, cls, tcls, tag))
          return False
    for (key, role), vals in sorted(groups.items()):
      ctx.checked()
      if len(vals) > 1:
        ctx.violation("trial|pattern-group-not-shared|%s" % role,
                      "layers matched by %r carry different %s quantizers %r%s"
                      % (key, role, sorted(vals), tag))
        return False
    return True

  def check_sizes(self, target, hm, qm, ref, tag=""):
    """Forgiving factor clauses and the size model of dense/conv/activation
    layers."""
    ctx = self.ctx
    rs, ts = float(target.reference_size), float(hm.trial_size)
    d = float(target.delta())
    ctx.checked()
    if ts == rs and d != 0.0:
      ctx.violation("forgiving|delta-nonzero-at-equal-size", "%r" % d)
      return False
    if (ts < rs and not d > 0) or (ts > rs and not d < 0):
      ctx.violation("forgiving|delta-sign-wrong",
                    "trial %r reference %r delta %r%s" % (ts, rs, d, tag))
      return False
    for ts2, d2 in self.deltas:
      if (ts2 < ts and not d2 > d) or (ts2 > ts and not d2 < d) or (
          ts2 == ts and d2 != d):
        ctx.violation("forgiving|delta-not-strictly-decreasing-in-size",
                      "size %r -> delta %r but size %r -> delta %r%s" % (
                          ts2, d2, ts, d, tag))
        return False
    self.deltas.append((ts, d))
    # the score compiled into THIS trial must carry THIS trial's bonus:
    # adjusted score = metric * (1 + delta); with a perfect prediction the
    # metric is 1
    tf = tf_setup()
    k = int(qm.output_shape[-1])
    n = int(np.prod(qm.output_shape[1:-1])) if len(qm.output_shape) > 2 else 1
    if k >= 2 and n == 1:
      yt = tf.constant(np.eye(k, dtype=np.float32))
      sc = float(np.mean(np.asarray(hm.score(yt, yt))))
      ctx.checked()
      ctx.probe("compiled_score_checked")
      if abs(sc - (1.0 + d)) > 1e-5 * max(1.0, abs(1.0 + d)):
        ctx.violation("forgiving|compiled-score-carries-stale-bonus",
                      "score of a perfect prediction is %r, metric*(1+delta) "
                      "would be %r (trial size %r, reference %r)%s" % (
                          sc, 1.0 + d, ts, rs, tag))
        return False
    # per-layer size entries
    tsd = target.trial_size_dict
    tsp = self.w["target"]
    for l in qm.layers:
      cls = type(l).__name__
      e = tsd.get(l.name)
      if e is None:
        continue
      want_p = want_a = None
      if cls in ("Dense", "Conv2D", "Conv1D", "DepthwiseConv2D"):
        want_p = sum(tsp.get("ref_bits", 8) * int(np.prod(w_.shape))
                     for w_ in l.get_weights())
        an = act_name(l)
        want_a = 0 if an in (None, "linear") else tsp.get(
            "ref_bits", 8) * int(np.prod(l.output.shape[1:]))
      elif cls in ("QDense", "QConv2D", "QConv1D", "QDepthwiseConv2D"):
        want_p = 0
        qs = [l.depthwise_quantizer_internal if cls == "QDepthwiseConv2D"
              else l.kernel_quantizer_internal, l.bias_quantizer_internal]
        for q, w_ in zip(qs, l.get_weights()):
          bits = q.bits if q is not None else tsp.get("ref_bits", 8)
          want_p += bits * int(np.prod(w_.shape))
        an = act_name(l)
        n_out = int(np.prod(l.output.shape[1:]))
        if l.activation is None or an == "linear":
          want_a = 0
        elif an == "softmax":
          want_a = tsp.get("output_bits", 8) * n_out
        else:
          want_a = getattr(l.activation, "bits", tsp.get("ref_bits", 8)) * n_out
      elif cls == "QActivation":
        want_p = 0
        want_a = getattr(l.quantizer, "bits", tsp.get("ref_bits", 8)) * int(
            np.prod(l.output.shape[1:]))
      if want_p is None:
        continue
      ctx.checked()
      if int(e["parameters"]) != int(want_p) or int(e["activations"]) != int(
          want_a):
        ctx.violation("forgiving|size-model-wrong|%s" % cls,
                      "%s: size model says parameters=%r activations=%r, "
                      "elements x bits gives %r / %r%s" % (
                          l.name, e["parameters"], e["activations"], want_p,
                          want_a, tag))
        return False
    return True


def model_sig(m):
  return [(type(l).__name__, layer_cfg(l)) for l in m.layers]


class World:
  def __init__(self, ctx, scn):
    self.ctx = ctx
    self.spec = scn["world"]
    ok, self.ref = guard(ctx, "build-reference", build_reference, self.spec)
    if not ok:
      raise StopRun()
    self.target = make_target(self.spec["target"])
    self.limit = self.spec["limit"]
    ok, self.hm = guard(ctx, "hypermodel-init", quiet, make_hyper, self.ref,
                        self.spec, self.target, always=True)
    if not ok:
      raise StopRun()
    self.oracle = Oracle(ctx, self.spec)
    self.ref_cfg = self.ref.to_json()
    self.ref_w = [np.copy(x) for x in self.ref.get_weights()]
    self.ref_lr = float(self.ref.optimizer.learning_rate.numpy())
    # discovery trial with an empty assignment
    hp = new_hp()
    ok, qm = guard(ctx, "build(discovery)", quiet, self.hm.build, hp,
                   always=True)
    if not ok:
      raise StopRun()
    self.space = space_of(hp)
    self.trials = []
    self.disturbed = True
    n = 1
    for v in self.space.values():
      n *= len(v)
    self.space_size = n
    ctx.probe("space_size_le_512" if n <= 512 else "space_size_gt_512")
    self.after_trial(qm, {k: hp.values[k] for k in hp.values}, "discovery")

  def reference_unchanged(self, when):
    ctx = self.ctx
    ctx.checked()
    if self.ref.to_json() != self.ref_cfg:
      ctx.violation("trial|reference-model-config-changed", when)
      return False
    if not all(np.array_equal(a, b) for a, b in zip(self.ref_w,
                                                    self.ref.get_weights())):
      ctx.violation("trial|reference-model-weights-changed", when)
      return False
    if not self.spec.get("lr_opt") and abs(float(
        self.ref.optimizer.learning_rate.numpy()) - self.ref_lr) > 1e-12:
      ctx.violation("trial|reference-optimizer-learning-rate-changed", when)
      return False
    return True

  def after_trial(self, qm, assign, tag):
    ctx = self.ctx
    if not self.oracle.check_trial(self.ref, self.hm, qm, assign, self.limit,
                                   " (%s)" % tag):
      return
    if not self.oracle.check_sizes(self.target, self.hm, qm, self.ref,
                                   " (%s)" % tag):
      return
    if not self.reference_unchanged(tag):
      return
    ctx.log("trial", json.dumps(model_sig(qm), sort_keys=True))

  def trial(self, assign, tag, compare_fresh):
    ctx = self.ctx
    hp = new_hp(assign)
    ok, qm = guard(ctx, "build", quiet, self.hm.build, hp, always=True)
    if not ok:
      return None
    self.after_trial(qm, assign, tag)
    if compare_fresh:
      fresh_t = make_target(self.spec["target"])
      fresh = quiet(make_hyper, self.ref, self.spec, fresh_t, self.limit,
                    self.frozen if hasattr(self, "frozen") else None)
      qf = quiet(fresh.build, new_hp(assign))
      ctx.checked()
      ctx.probe("compared_with_fresh_hypermodel")
      if model_sig(qf) != model_sig(qm):
        a, b = model_sig(qm), model_sig(qf)
        bad = [x[0] for x, y in zip(a, b) if x != y][:3]
        ctx.violation("history|trial-differs-from-fresh-hypermodel|%s" % (
            ";".join(sorted(set(bad)))),
            "after %s the server builds a different model than a fresh "
            "hyper-model for the same assignment %r" % (tag, assign))
        return None
    return qm


def apply_op(ctx, w, op):
  k = op["k"]
  ctx.log("op", k)
  if k == "TRIAL":
    a = assignment(w.space, op["aseed"])
    qm = w.trial(a, "trial", w.disturbed or bool(op.get("fresh")))
    w.trials.append(a)
    w.disturbed = False
    w.last_qm = qm
  elif k == "DUPLICATE":
    if not w.trials:
      return
    a = w.trials[op["i"] % len(w.trials)]
    ctx.fault("duplicate_trial")
    w.last_qm = w.trial(a, "duplicate", True)
  elif k == "REORDER":
    if len(w.trials) < 2:
      return
    ctx.fault("reordered_batch")
    for a in reversed(w.trials[-3:]):
      w.last_qm = w.trial(a, "reordered", True)
  elif k == "CRASH":
    a = assignment(w.space, op["aseed"])
    if op.get("where") == "after_quantize":
      orig = w.target.get_trial

      def boom(model):
        raise InjectedFault("worker died after quantize_model")
      w.target.get_trial = boom
      try:
        quiet(w.hm.build, new_hp(a))
        raise HarnessError("crash point did not fire")
      except InjectedFault:
        ctx.fault("crash_after_quantize_model")
      finally:
        del w.target.get_trial
    else:
      n = max(1, len(w.space))
      at = 1 + op["at"] % n
      try:
        quiet(w.hm.build, new_hp(a, crash_at=at))
        ctx.probe("crash_point_not_reached")
      except InjectedFault:
        ctx.fault("crash_in_build_at_hp_request")
        if at == n:
          ctx.probe("crash_at_last_hp_request")
    w.disturbed = True
    w.reference_unchanged("after-crashed-build")
  elif k == "ALL":
    # exhaustive walk (in a seeded order) of a small space
    names = sorted(w.space)
    total = 1
    for n in names:
      total *= len(w.space[n])
    cap = int(op.get("cap", 24))
    if total <= 4096:
      order = sorted(range(total), key=lambda i: derive_seed(op["aseed"], i))
      picks = order[:cap]
    else:
      picks = []
      j = 0
      while len(picks) < cap:
        i = derive_seed(op["aseed"], j) % total
        j += 1
        if i not in picks:
          picks.append(i)
    for i in picks:
      a = {}
      for n in names:      # mixed-radix decode of the assignment index
        vals = w.space[n]
        a[n] = vals[i % len(vals)]
        i //= len(vals)
      w.trial(a, "enumerated", False)
      w.trials.append(a)
    if total <= cap:
      ctx.probe("space_enumerated_exhaustively")
    ctx.fault("enumeration_walk")
  elif k == "NEXT_BLOCK":
    next_block(ctx, w, op)
  else:
    raise HarnessError("op " + k)


def next_block(ctx, w, op):
  """What AutoQKerasScheduler.fit does between blocks: the best model of the
  previous block becomes the reference of a new hyper-model that shares the
  SAME target object; the previous block's layers are frozen."""
  tf = tf_setup()
  import tf_keras as keras
  qm = getattr(w, "last_qm", None)
  b2 = w.spec.get("limit2")
  if qm is None or not b2:
    return
  qm.compile(optimizer=keras.optimizers.SGD(0.02), loss="mse", metrics=["acc"])
  frozen = [l.name for l in qm.layers
            if type(l).__name__.startswith("Q")]
  w.ref = qm
  w.limit = b2
  w.frozen = frozen
  spec2 = dict(w.spec)
  spec2["limit"] = b2
  w.spec = spec2
  w.oracle.w = spec2
  ok, w.hm = guard(ctx, "hypermodel-init(next block)", quiet, make_hyper, qm,
                   spec2, w.target, b2, frozen, always=True)
  ctx.fault("next_block_shared_target")
  if not ok:
    raise StopRun()
  w.ref_cfg = qm.to_json()
  w.ref_w = [np.copy(x) for x in qm.get_weights()]
  w.ref_lr = float(qm.optimizer.learning_rate.numpy())
  hp = new_hp()
  ok, q2 = guard(ctx, "build(discovery, next block)", quiet, w.hm.build, hp,
                 always=True)
  if not ok:
    raise StopRun()
  w.space = space_of(hp)
  w.trials = []
  w.disturbed = True
  w.after_trial(q2, dict(hp.values), "next-block discovery")
  w.last_qm = q2


def execute(scn, known=(), stop=True):
  ctx = Ctx("C20", known, stop_on_violation=stop)
  fresh_session(int(scn.get("seed", 0)))
  try:
    w = World(ctx, scn)
    for i, op in enumerate(scn["ops"]):
      ctx.step = i
      apply_op(ctx, w, op)
    ctx.step = len(scn["ops"])
  except StopRun:
    pass
  finally:
    set_phase(0)
  return ctx.result()


# ---------------------------------------------------------------------------
ENGINE = "A"
LEVEL = "exploration"
RULE = ("scenario = generated compiled reference model (<=7 layers: Dense / "
        "Conv2D / DepthwiseConv2D / SeparableConv2D / LSTM|GRU|SimpleRNN / "
        "Activation / Flatten) + limit dictionary (per class, per regex "
        "pattern, integer limits or lists of allowed quantizers) + "
        "layer_indexes + tune_filters mode + a ForgivingFactorBits target; "
        "ops = TRIAL(assignment seed) / DUPLICATE / REORDER / CRASH at the "
        "k-th hp request or right after quantize_model / ALL (walk of a small "
        "space, exhaustive when <= cap) / NEXT_BLOCK (new hyper-model, shared "
        "target, frozen layers); <= 12 trials per run; non-trivial = a fault "
        "(duplicate, reorder, crash, block change, enumeration) fired and an "
        "oracle check ran afterwards; distinct = distinct (op-kind sequence, "
        "fired fault kinds, world bucket)")
REAL = ["qkeras.autoqkeras AutoQKHyperModel (build, quantize_model, "
        "_get_quantizer)", "ForgivingFactorBits", "utils.model_quantize",
        "keras_tuner.HyperParameters", "tf_keras models"]
STUB = ["keras-tuner Oracle/Tuner: a fake that only assigns hyper-parameters "
        "and sequences trials (no training, no scoring)",
        "trial crash: HyperParameters subclass raising at the k-th request / "
        "target.get_trial raising once"]


def gen_layers(rng):
  kind = rng.wpick([("vec", 4), ("img", 4), ("seq", 2)])
  layers = []
  n = rng.randrange(2, 6)
  cur = kind
  cnt = {"fc": 0, "cv": 0, "act": 0, "rn": 0}

  def nm(p):
    cnt[p] += 1
    return "%s%d" % (p, cnt[p] - 1)
  for i in range(n):
    if cur == "img":
      r = rng.random()
      if r < 0.45:
        layers.append({"t": "Conv2D", "name": nm("cv"), "filters": rng.pick(
            [2, 3, 4]), "kernel": rng.pick([1, 2, 3]),
                       "act": rng.pick([None, "relu", "linear"]),
                       "use_bias": not rng.chance(0.2)})
      elif r < 0.6:
        layers.append({"t": "DepthwiseConv2D", "name": nm("cv"),
                       "kernel": rng.pick([1, 2]),
                       "use_bias": not rng.chance(0.2)})
      elif r < 0.7:
        layers.append({"t": "SeparableConv2D", "name": nm("cv"),
                       "filters": rng.pick([2, 3]), "kernel": 2,
                       "use_bias": not rng.chance(0.2)})
      elif r < 0.85:
        layers.append({"t": "Activation", "name": nm("act"),
                       "act": rng.pick(["relu", "relu", "tanh", "linear"])})
      else:
        layers.append({"t": "Flatten", "name": "flat"})
        cur = "vec"
    elif cur == "seq":
      if rng.chance(0.6):
        seq = rng.chance(0.4)
        # stock GRU defaults to reset_after=True, whose QGRU path uses a TF
        # symbol absent from TF 2.21 (cannot run in this sandbox)
        layers.append({"t": rng.pick(["LSTM", "SimpleRNN"]),
                       "name": nm("rn"), "units": rng.pick([2, 3]), "seq": seq})
        if not seq:
          cur = "vec"
      else:
        layers.append({"t": "Flatten", "name": "flat"})
        cur = "vec"
    else:
      if rng.chance(0.7):
        layers.append({"t": "Dense", "name": nm("fc"), "units": rng.pick(
            [2, 3, 4, 6]), "act": rng.pick([None, "relu", "linear", "softmax"]),
                       "use_bias": not rng.chance(0.2)})
      else:
        layers.append({"t": "Activation", "name": nm("act"),
                       "act": rng.pick(["relu", "tanh", "linear", "softmax"])})
  if cur != "vec":
    layers.append({"t": "Flatten", "name": "flat"})
  if rng.chance(0.3):
    # a layer that is already (partially) quantized in the reference model:
    # trials keep it as it is, the size model must count it
    layers.append({"t": "QDense", "name": "pq0", "units": rng.pick([2, 3]),
                   "kq": rng.pick(["quantized_bits(4,0,1)", "ternary", None]),
                   "bq": rng.pick([None, "quantized_bits(6,2,1)"]),
                   "aq": rng.pick([None, "quantized_relu(6,2)"])})
  if rng.chance(0.2):
    # an activation layer that is already quantized, configured by a string
    # or holding a quantizer object
    layers.append({"t": "QActivation", "name": "pqa0",
                   "aq": rng.pick(["quantized_relu(6,2)",
                                   "quantized_bits(5,1,1)"]),
                   "obj": rng.chance(0.5)})
  layers.append({"t": "Dense", "name": nm("fc"), "units": rng.pick([2, 3]),
                 "act": rng.pick([None, "softmax"])})
  return kind, layers


def gen_lim_entry(rng, cls):
  def one(role):
    r = rng.random()
    if r < 0.75:
      return rng.pick([1, 2, 3, 4, 6, 8, 16])
    keys = sorted(QCONFIG[role])
    k = rng.randrange(1, min(3, len(keys)) + 1)
    start = rng.randrange(len(keys))
    return [keys[(start + j) % len(keys)] for j in range(k)]
  if cls == "Activation":
    return [one("activation")]
  if cls in SEQUENCE:
    return [one("kernel"), one("bias"), one("recurrent_kernel"),
            rng.pick([4, 8])]
  return [one("kernel"), one("bias"), one("activation")]


def fix_entry(entry):
  """An integer limit must leave at least one candidate (else the tuner gets
  an empty Choice): unsupported lattice."""
  roles = ["kernel", "bias", "activation"] if len(entry) == 3 else (
      ["activation"] if len(entry) == 1 else
      ["kernel", "bias", "recurrent_kernel", "recurrent_activation"])
  out = []
  for r, v in zip(roles, entry):
    if isinstance(v, int):
      lo = min(QCONFIG[r].values())
      if r == "activation":
        lo = max(lo, min(QCONFIG["linear"].values()))
      v = max(v, lo)
      if r == "kernel":
        v = max(v, min(QCONFIG["pointwise_kernel"].values()),
                min(QCONFIG["recurrent_kernel"].values()))
    out.append(v)
  return out


def _sanitize(limit, layers):
  """A list limit must be a subset of the section it is applied to (the
  hyper-model documents that it raises otherwise): an Activation layer with a
  linear activation draws from the 'linear' section, so activation-section
  lists are replaced by an integer limit where such a layer is matched."""
  for key, entry in limit.items():
    if key == "default" or not isinstance(entry, list) or not entry or \
        not isinstance(entry[-1], list):
      continue
    for l in layers:
      if l["t"] == "Activation" and l.get("act") == "linear" and (
          re.match(key, l["name"]) or key == "Activation"):
        entry[-1] = 8


def generate(rng):
  kind, layers = gen_layers(rng)
  classes = sorted({l["t"] for l in layers if l["t"] in REGISTERED or
                    l["t"] == "Activation"})
  limit = {}
  names = [l["name"] for l in layers if l["t"] in REGISTERED or
           l["t"] == "Activation"]
  # patterns first (dict order is the match order)
  common = kind != "seq" and rng.chance(0.2)
  if common:
    # ONE name pattern spanning layers of different kinds: dense/conv layers
    # and (possibly linear) Activation layers share a three-element entry, the
    # activation role is its last element
    for l in layers:
      l["name"] = "b_" + l["name"]
    names = [l["name"] for l in layers if l["t"] in REGISTERED or
             l["t"] == "Activation"]
    limit["^b_"] = fix_entry(gen_lim_entry(rng, "Dense"))
  if not common and rng.chance(0.5):
    pref = rng.pick(["fc", "cv", "act", "rn"])
    matched = [l for l in layers if l["name"].startswith(pref)]
    if matched:
      cls = matched[0]["t"]
      if all(m["t"] == cls for m in matched) or cls != "Activation":
        limit["^%s.*" % pref] = fix_entry(gen_lim_entry(
            rng, "Activation" if cls == "Activation" else (
                cls if cls in SEQUENCE else "Dense")))
  if not common and rng.chance(0.3) and names:
    n = rng.pick(names)
    l = [x for x in layers if x["name"] == n][0]
    limit["^%s$" % n] = fix_entry(gen_lim_entry(
        rng, "Activation" if l["t"] == "Activation" else (
            l["t"] if l["t"] in SEQUENCE else "Dense")))
  if len(limit) == 2 and rng.chance(0.5):
    # overlapping patterns: the specific one listed BEFORE the general one
    # (the first match governs)
    limit = dict(reversed(list(limit.items())))
  for c in classes:
    if rng.chance(0.8):
      limit[c] = fix_entry(gen_lim_entry(rng, c))
  if not limit:
    limit["Dense"] = [4, 4, 4]
  if rng.chance(0.45):
    form = rng.wpick([("int", 2), ("list3", 1), ("list4", 2)])
    if form == "int":
      limit["default"] = rng.pick([2, 4, 6, 8])
    elif form == "list3":
      limit["default"] = [rng.pick([2, 4, 8]), rng.pick([4, 8]),
                          rng.pick([3, 4, 8])]
    else:
      limit["default"] = [rng.pick([2, 4, 8]), rng.pick([4, 8]),
                          rng.pick([4, 8]), rng.pick([3, 4, 6])]
    for c in list(limit):
      if c in REGISTERED and c not in SEQUENCE and rng.chance(0.6):
        limit[c] = limit[c][:rng.pick([1, 2])]
      elif c in SEQUENCE and form == "list4" and rng.chance(0.5):
        limit[c] = limit[c][:rng.pick([1, 2, 3])]
  _sanitize(limit, layers)
  world = {"input": kind, "layers": layers, "limit": limit,
           "wseed": rng.subseed(),
           "activation_bits": rng.pick([2, 4, 8]),
           "tune_filters": rng.wpick([("none", 3), ("layer", 1), ("block", 1)]),
           "tune_filters_exceptions": rng.pick(["^$", "^fc.*$", "^cv0$", "0$",
                                                "c1|v0", "1$", "v"]),
           "target": {"delta_p": rng.pick([8.0, 4.0, 1.0]),
                      "delta_n": rng.pick([8.0, 4.0, 2.0]),
                      "rate": rng.pick([2.0, 4.0, 1.5]),
                      "stress": rng.pick([1.0, 1.0, 0.8]),
                      "input_bits": 8, "output_bits": 8,
                      "ref_bits": rng.pick([8, 8, 16])}}
  if rng.chance(0.3):
    n = len(layers) + 1
    idx = sorted(rng.sample(range(n), rng.randrange(1, n)))
    world["layer_indexes"] = idx
  if rng.chance(0.35):
    # second block: the layers not matched by the first limit, by name
    rest = [l for l in layers if (l["t"] in REGISTERED or l["t"] ==
                                  "Activation")]
    pick = [l for l in rest if rng.chance(0.5)]
    if pick:
      l2 = {}
      for l in pick:
        l2["^%s$" % l["name"]] = fix_entry(gen_lim_entry(
            rng, "Activation" if l["t"] == "Activation" else (
                l["t"] if l["t"] in SEQUENCE else "Dense")))
      _sanitize(l2, layers)
      world["limit2"] = l2
  ops = []
  for _ in range(rng.randrange(2, 6)):
    k = rng.wpick([("TRIAL", 6), ("DUPLICATE", 1.5), ("REORDER", 1),
                   ("CRASH", 2), ("NEXT_BLOCK", 0.8 if "limit2" in world
                                  else 0), ("ALL", 0.5)])
    op = {"k": k}
    if k in ("TRIAL", "CRASH", "ALL"):
      op["aseed"] = rng.subseed()
    if k == "TRIAL":
      op["fresh"] = rng.chance(0.3)
    if k == "DUPLICATE":
      op["i"] = rng.randrange(8)
    if k == "CRASH":
      if rng.chance(0.3):
        op["where"] = "after_quantize"
      else:
        op["at"] = rng.randrange(40)
    if k == "ALL":
      op["cap"] = 6
    ops.append(op)
  return {"seed": rng.subseed(), "world": world, "ops": ops}


def directed():
  tgt = {"delta_p": 8.0, "delta_n": 8.0, "rate": 2.0, "stress": 1.0,
         "input_bits": 8, "output_bits": 8, "ref_bits": 8}
  mlp = [{"t": "Dense", "name": "fc0", "units": 4, "act": "relu"},
         {"t": "Dense", "name": "fc1", "units": 3, "act": None},
         {"t": "Activation", "name": "act0", "act": "relu"},
         {"t": "Dense", "name": "fc2", "units": 2, "act": "softmax"}]
  cnn = [{"t": "Conv2D", "name": "cv0", "filters": 3, "kernel": 2,
          "act": "relu"},
         {"t": "Conv2D", "name": "cv1", "filters": 2, "kernel": 2, "act": None},
         {"t": "Activation", "name": "act0", "act": "relu"},
         {"t": "Flatten", "name": "flat"},
         {"t": "Dense", "name": "fc0", "units": 2, "act": None}]
  seq = [{"t": "LSTM", "name": "rn0", "units": 2, "seq": False},
         {"t": "Dense", "name": "fc0", "units": 2, "act": None}]
  sep = [{"t": "SeparableConv2D", "name": "cv0", "filters": 2, "kernel": 2},
         {"t": "DepthwiseConv2D", "name": "cv1", "kernel": 2},
         {"t": "Flatten", "name": "flat"},
         {"t": "Dense", "name": "fc0", "units": 2, "act": None}]
  standard = [{"k": "ALL", "aseed": 1, "cap": 6},
              {"k": "DUPLICATE", "i": 0},
              {"k": "CRASH", "aseed": 2, "at": 1},
              {"k": "TRIAL", "aseed": 3},
              {"k": "CRASH", "aseed": 4, "where": "after_quantize"},
              {"k": "TRIAL", "aseed": 5}]
  blk = [{"t": "Dense", "name": "b_fc0", "units": 4, "act": None},
         {"t": "Activation", "name": "b_act0", "act": "linear"},
         {"t": "Dense", "name": "b_fc1", "units": 3, "act": "relu"},
         {"t": "Activation", "name": "b_act1", "act": "relu"},
         {"t": "Dense", "name": "b_fc2", "units": 2, "act": None}]
  worlds = [
      # one name pattern spanning dense layers and (linear) activation layers
      ("pattern-spanning-kinds-linear-activation", "vec", blk,
       {"^b_": [16, 8, 2]}, {}),
      ("pattern-spanning-kinds-list-kernel-limit", "vec", blk,
       {"^b_": [["binary", "ternary"], 8, 4]}, {}),
      ("mlp-class-limits", "vec", mlp, {"Dense": [4, 4, 4],
                                        "Activation": [4]}, {}),
      ("mlp-low-activation-limit", "vec", mlp, {"Dense": [8, 8, 3],
                                                "Activation": [3]},
       {"activation_bits": 8}),
      ("mlp-pattern-group", "vec", mlp, {"^fc[01]$": [4, 8, 8],
                                         "Activation": [8]}, {}),
      ("mlp-list-limits", "vec", mlp, {"Dense": [["binary", "ternary"],
                                                 ["quantized_bits(4,0,1)"], 4]},
       {}),
      ("mlp-layer-indexes", "vec", mlp, {"Dense": [4, 4, 4],
                                         "Activation": [4]},
       {"layer_indexes": [1, 3]}),
      ("mlp-tune-layer", "vec", mlp, {"Dense": [4, 4, 4]},
       {"tune_filters": "layer", "tune_filters_exceptions": "^fc2$"}),
      ("mlp-tune-block", "vec", mlp, {"Dense": [4, 4, 4]},
       {"tune_filters": "block", "tune_filters_exceptions": "^fc2$"}),
      ("mlp-tune-layer-unanchored-exception", "vec", mlp, {"Dense": [4, 4, 4]},
       {"tune_filters": "layer", "tune_filters_exceptions": "2$"}),
      ("mlp-tune-block-unanchored-exception", "vec", mlp, {"Dense": [4, 4, 4]},
       {"tune_filters": "block", "tune_filters_exceptions": "c1|c2"}),
      ("mlp-default-int-short-lists", "vec", mlp, {"Dense": [4],
                                                   "Activation": [4],
                                                   "default": 6}, {}),
      ("mlp-default-4list-short-lists", "vec", mlp, {
          "Dense": [4, 4], "Activation": [4], "default": [8, 8, 8, 3]}, {}),
      ("lstm-default-4list", "seq", seq, {"LSTM": [4, 4], "Dense": [4],
                                          "default": [8, 4, 4, 8]}, {}),
      ("cnn", "img", cnn, {"Conv2D": [4, 4, 4], "Dense": [8, 8, 8],
                           "Activation": [4]}, {}),
      ("cnn-partial", "img", cnn, {"Conv2D": [2, 4, 4]}, {}),
      ("lstm", "seq", seq, {"LSTM": [4, 4, 4, 4], "Dense": [4, 4, 4]}, {}),
      ("lstm-low-activation-limit", "seq", seq, {"LSTM": [8, 8, 8, 2],
                                                 "Dense": [4, 4, 4]}, {}),
      ("separable", "img", sep, {"SeparableConv2D": [4, 4, 4],
                                 "DepthwiseConv2D": [4, 4, 4]}, {}),
  ]
  preq = [{"t": "QDense", "name": "pq0", "units": 4,
           "kq": "quantized_bits(4,0,1)", "bq": None,
           "aq": "quantized_relu(6,2)"},
          {"t": "QDense", "name": "pq1", "units": 3, "kq": None,
           "bq": "quantized_bits(6,2,1)"},
          {"t": "Dense", "name": "fc0", "units": 2, "act": "relu"},
          {"t": "Dense", "name": "fc1", "units": 2, "act": "softmax"}]
  worlds.append(("pre-quantized-partial-layers", "vec", preq,
                 {"Dense": [4, 4, 4]}, {}))
  cpre = [{"t": "QConv2D", "name": "pq0", "filters": 2, "kernel": 2,
           "kq": "quantized_bits(4,0,1)", "bq": None},
          {"t": "Conv2D", "name": "cv0", "filters": 2, "kernel": 2,
           "act": "relu"}, {"t": "Flatten", "name": "flat"},
          {"t": "Dense", "name": "fc0", "units": 2, "act": None}]
  worlds.append(("pre-quantized-partial-conv", "img", cpre,
                 {"Conv2D": [4, 4, 4], "Dense": [4, 4, 4]}, {}))
  out = []
  for label, kind, layers, limit, extra in worlds:
    w = {"input": kind, "layers": layers, "limit": limit, "wseed": 3,
         "target": tgt, "tune_filters_exceptions": "^$"}
    w.update(extra)
    out.append({"label": "directed:" + label, "seed": 1, "world": w,
                "ops": list(standard)})
  w = {"input": "vec", "layers": mlp, "limit": {"^fc0$": [4, 4, 4]},
       "limit2": {"^fc1$": [2, 4, 4], "^act0$": [4]}, "wseed": 3,
       "target": tgt, "tune_filters_exceptions": "^$"}
  out.append({"label": "directed:two-blocks-shared-target", "seed": 1,
              "world": w, "ops": [{"k": "TRIAL", "aseed": 1},
                                  {"k": "NEXT_BLOCK"},
                                  {"k": "TRIAL", "aseed": 2},
                                  {"k": "CRASH", "aseed": 3, "at": 0},
                                  {"k": "TRIAL", "aseed": 4},
                                  {"k": "DUPLICATE", "i": 0}]})
  return out


def simplify(scn):
  w = scn["world"]
  for key in ("layer_indexes", "limit2"):
    if key in w:
      c = json.loads(json.dumps(scn))
      del c["world"][key]
      yield c
  if w.get("tune_filters", "none") != "none":
    c = json.loads(json.dumps(scn))
    c["world"]["tune_filters"] = "none"
    yield c
  for k in list(w["limit"]):
    if len(w["limit"]) > 1:
      c = json.loads(json.dumps(scn))
      del c["world"]["limit"][k]
      yield c
  for i in range(len(w["layers"]) - 1):
    if w["layers"][i]["t"] != "Flatten":
      c = json.loads(json.dumps(scn))
      del c["world"]["layers"][i]
      yield c


def bucket(scn):
  w = scn["world"]
  return [[l["t"] for l in w["layers"]], sorted(w["limit"]),
          w.get("tune_filters"), bool(w.get("layer_indexes")),
          bool(w.get("limit2"))]
