"""Worker process: imports TensorFlow once, executes runs, minimises failures.

Invoked through /verif/worker_main.py (never with python -m, to avoid loading
this module twice).
"""
import argparse
import faulthandler
import hashlib
import json
import os
import sys
import time
import traceback

from . import props
from .core import HarnessError, Rng, derive_seed, jdump, minimise

REPLAY_DIR = os.path.join(os.path.dirname(os.path.dirname(
    os.path.abspath(__file__))), "replays")


def run_signature(mod, scn, res):
  kinds = [o["k"] for o in scn["ops"]]
  b = mod.bucket(scn) if hasattr(mod, "bucket") else None
  raw = jdump([kinds, sorted(res["faults"]), b])
  return hashlib.sha256(raw.encode()).hexdigest()[:16]


def scenario_for(mod, prop, seed, idx, directed):
  if idx < len(directed):
    scn = directed[idx]
    scn.setdefault("label", "directed:%d" % idx)
    return scn
  rs = derive_seed(seed, prop, idx)
  scn = mod.generate(Rng(rs))
  scn["label"] = "random:%d" % idx
  scn["run_seed"] = rs
  return scn


def write_replay(prop, scn, viol, minimised_from=None, suffix=""):
  os.makedirs(REPLAY_DIR, exist_ok=True)
  h = hashlib.sha256(viol["sig"].encode()).hexdigest()[:12]
  path = os.path.join(REPLAY_DIR, "%s-%s%s.json" % (prop, h, suffix))
  doc = dict(scn)
  doc["property"] = prop
  doc["violation"] = viol
  if minimised_from is not None:
    doc["minimised_from_ops"] = minimised_from
  tmp = path + ".%d.tmp" % os.getpid()
  with open(tmp, "w") as f:
    json.dump(doc, f, indent=1, sort_keys=True, default=repr)
  os.replace(tmp, path)
  return path


def handle_violation(mod, prop, scn, res, known, min_budget):
  """Minimise the first new violation of a run and write its replay file."""
  viol = res["violations"][0]
  target = viol["sig"]

  def fails(c):
    r = mod.execute(c, known, True)
    return any(v["sig"] == target for v in r["violations"])

  n0 = len(scn["ops"])
  # the unminimised scenario is kept too: if the code under test leaks state
  # across executions in one process (a module-level cache, say), candidates
  # accepted during minimisation may only fail because of earlier executions,
  # and the minimised file then does not replay in a fresh interpreter
  orig_path = write_replay(prop, scn, viol, None, ".w%d.orig" % os.getpid())
  cut = dict(scn)
  if 0 <= viol["step"] < n0:
    cut["ops"] = scn["ops"][:viol["step"] + 1]
    if not fails(cut):
      cut = dict(scn)
  small = minimise(cut, fails, getattr(mod, "simplify", None), min_budget)
  r = mod.execute(small, known, True)
  v2 = [v for v in r["violations"] if v["sig"] == target]
  if not v2:
    small, v2 = scn, [viol]
  return write_replay(prop, small, v2[0], n0), len(small["ops"]), orig_path


def cmd_run(a):
  faulthandler.enable()
  mod = props.load(a.prop)
  known = set(json.loads(a.known)) if a.known else set()
  directed = mod.directed() if not a.no_directed else []
  total = len(directed) + a.nruns
  t0 = time.time()
  out = open(a.out, "w")
  seen_sigs = set()
  capped = False
  n = 0
  for idx in range(a.wid, total, a.nworkers):
    if time.time() - t0 > a.budget:
      capped = True
      break
    faulthandler.dump_traceback_later(a.run_timeout, exit=True)
    scn = scenario_for(mod, a.prop, a.seed, idx, directed)
    t1 = time.time()
    try:
      res = mod.execute(scn, known, True)
    except HarnessError as e:
      out.write(jdump({"idx": idx, "harness_error": str(e)[:4000],
                       "scn": scn}) + "\n")
      out.flush()
      faulthandler.cancel_dump_traceback_later()
      continue
    except Exception as e:  # pylint: disable=broad-except
      out.write(jdump({"idx": idx, "harness_error": "%s: %s\n%s" % (
          type(e).__name__, e, traceback.format_exc()[-3000:]),
                       "scn": scn}) + "\n")
      out.flush()
      faulthandler.cancel_dump_traceback_later()
      continue
    faulthandler.cancel_dump_traceback_later()
    rec = {"idx": idx, "label": scn.get("label"), "digest": res["digest"],
           "nops": len(scn["ops"]), "faults": res["faults"],
           "probes": res["probes"], "checks": res["oracle_checks"],
           "checks_after_fault": res["oracle_after_fault"],
           "rsig": run_signature(mod, scn, res),
           "known": [k["sig"] for k in res["known"]],
           "known_msgs": {k["sig"]: k["msg"] for k in res["known"]},
           "wall": round(time.time() - t1, 4), "violations": []}
    if n < 3 or (idx >= len(directed) and n < 6):
      rec["sample"] = {"label": scn.get("label"), "world": scn.get("world"),
                       "ops": scn["ops"][:12]}
    if res["violations"]:
      v = res["violations"][0]
      if v["sig"] not in seen_sigs:
        seen_sigs.add(v["sig"])
        faulthandler.dump_traceback_later(a.run_timeout * 20, exit=True)
        try:
          path, nmin, opath = handle_violation(mod, a.prop, scn, res, known,
                                               a.min_budget)
        finally:
          faulthandler.cancel_dump_traceback_later()
        rec["violations"].append({"sig": v["sig"], "msg": v["msg"],
                                  "step": v["step"], "replay": path,
                                  "replay_orig": opath, "min_ops": nmin,
                                  "orig_ops": len(scn["ops"])})
      else:
        rec["violations"].append({"sig": v["sig"], "msg": v["msg"],
                                  "step": v["step"], "replay": None})
    out.write(jdump(rec) + "\n")
    out.flush()
    n += 1
  out.write(jdump({"done": True, "wid": a.wid, "runs": n, "capped": capped,
                   "ndirected": len(directed),
                   "meta": {"level": mod.LEVEL, "rule": mod.RULE,
                            "real": mod.REAL, "stub": mod.STUB,
                            "engine": mod.ENGINE},
                   "wall": round(time.time() - t0, 3)}) + "\n")
  out.close()
  return 0


def cmd_replay(a):
  faulthandler.enable()
  with open(a.file) as f:
    scn = json.load(f)
  prop = a.prop or scn["property"]
  mod = props.load(prop)
  known = set(json.loads(a.known)) if a.known else set()
  res = mod.execute(scn, known, True)
  want = (scn.get("violation") or {}).get("sig")
  got = [v["sig"] for v in res["violations"]]
  print(jdump({"replay": a.file, "want": want, "got": got,
               "known": [k["sig"] for k in res["known"]],
               "digest": res["digest"],
               "msgs": [v["msg"] for v in res["violations"]]}))
  if got:
    return 1
  return 0


def cmd_digest(a):
  """Determinism self-test helper: print digests of runs idx in [lo,hi)."""
  mod = props.load(a.prop)
  directed = [] if a.no_directed else mod.directed()
  for rep in range(a.repeat):
    order = range(a.lo, a.hi) if rep % 2 == 0 else range(a.hi - 1, a.lo - 1, -1)
    for idx in order:
      scn = scenario_for(mod, a.prop, a.seed, idx, directed)
      res = mod.execute(scn, set(), False)
      print(rep, idx, res["digest"], len(res["violations"]), flush=True)
  return 0


def main(argv=None):
  p = argparse.ArgumentParser()
  sub = p.add_subparsers(dest="cmd")
  r = sub.add_parser("run")
  r.add_argument("--prop", required=True)
  r.add_argument("--seed", type=int, default=0)
  r.add_argument("--wid", type=int, default=0)
  r.add_argument("--nworkers", type=int, default=1)
  r.add_argument("--nruns", type=int, default=50)
  r.add_argument("--budget", type=float, default=120.0)
  r.add_argument("--run-timeout", type=int, default=300)
  r.add_argument("--min-budget", type=int, default=150)
  r.add_argument("--out", required=True)
  r.add_argument("--known", default="")
  r.add_argument("--no-directed", action="store_true")
  y = sub.add_parser("replay")
  y.add_argument("--prop", default=None)
  y.add_argument("--file", required=True)
  y.add_argument("--known", default="")
  d = sub.add_parser("digest")
  d.add_argument("--prop", required=True)
  d.add_argument("--seed", type=int, default=0)
  d.add_argument("--lo", type=int, default=0)
  d.add_argument("--hi", type=int, default=10)
  d.add_argument("--no-directed", action="store_true")
  d.add_argument("--repeat", type=int, default=1)
  a = p.parse_args(argv)
  if a.cmd == "run":
    return cmd_run(a)
  if a.cmd == "replay":
    return cmd_replay(a)
  if a.cmd == "digest":
    return cmd_digest(a)
  p.print_help()
  return 2
