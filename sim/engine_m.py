"""Engine M - the model world (C13, C14).

A generated small quantized model over the classes in qkeras' custom-object
table, explicit layer names, quantizer options drawn from the quantizer
lattice, seeded weights and a probe batch.  "Restart" = rebuild the model from
durable state only (JSON / library clone / HDF5 on a simulated disk).
"""
import errno
import io
import json
import os
import shutil
import tempfile

import numpy as np

from . import qspecs
from .core import HarnessError, InjectedFault, guard
from .engine_q import build_quantizer
from .seams import SimFile, tf_setup

INPUTS = {"img": (6, 6, 2), "seq": (5, 3), "vec": (4,)}

W_CLASSES = [("quantized_bits", 6), ("quantized_po2", 2),
             ("quantized_relu_po2", 0.7), ("binary", 2),
             ("ternary", 2), ("quantized_linear", 1), ("stochastic_binary", 0.5),
             ("stochastic_ternary", 0.5)]
A_CLASSES = [("quantized_relu", 5), ("quantized_tanh", 1), ("quantized_sigmoid", 1),
             ("quantized_bits", 2), ("quantized_relu_po2", 1), ("quantized_po2", 0.5),
             ("quantized_ulaw", 0.5), ("binary", 0.5), ("ternary", 0.5),
             ("quantized_hswish", 0.7), ("quantized_linear", 0.7)]


def gen_wq(rng, rank, allow_none=True, data_independent=False, classes=None):
  """Weight quantizer description for a weight tensor of the given rank."""
  if allow_none and rng.chance(0.12):
    return None
  cls = rng.wpick(classes or W_CLASSES)
  shape = [2] * rank
  s = qspecs.gen_spec(rng, cls, shape=shape, focus="m")
  kw = s["kw"]
  # weights: keep the lattice that layers support
  kw.pop("use_stochastic_rounding", None)
  kw.pop("elements_per_scale", None)      # divisibility depends on the shape
  kw.pop("qnoise_factor", None) if rng.chance(0.7) else None
  if "scale_axis" in kw:
    sa = kw["scale_axis"]
    if isinstance(sa, list) or (isinstance(sa, int) and sa >= rank):
      kw.pop("scale_axis")
  if cls == "ternary":
    kw.pop("threshold", None)
  if cls == "quantized_relu_po2":
    kw.pop("negative_slope", None)
  if cls == "quantized_linear":
    kw.pop("scale_axis", None)
    if kw.get("alpha") not in (None, "auto", "auto_po2"):
      kw.pop("alpha")
  if cls == "quantized_bits" and kw.get("bits", 8) < 2:
    kw["bits"] = 2
  if data_independent:
    if isinstance(kw.get("alpha"), str) or cls in ("binary", "ternary",
                                                   "stochastic_binary",
                                                   "stochastic_ternary"):
      if cls in ("binary", "stochastic_binary"):
        kw["alpha"] = rng.pick([1.0, 0.5, 2.0])
      elif cls in ("ternary", "stochastic_ternary"):
        return gen_wq(rng, rank, allow_none, data_independent,
                      [("quantized_bits", 3), ("quantized_po2", 1),
                       ("binary", 1)])
      else:
        kw.pop("alpha")
      for k in ("scale_axis", "min_po2_exponent", "max_po2_exponent",
                "post_training_scale"):
        kw.pop(k, None)
    if cls in ("quantized_bits", "quantized_linear") and "alpha" not in kw:
      # layer constructors turn alpha=None into 'auto_po2'
      # (_set_trainable_parameter); an explicit 1.0 keeps the scale constant
      kw["alpha"] = 1.0
  d = {"cls": cls, "kw": kw}
  if rng.chance(0.15) and not kw:
    d = {"str": "%s()" % cls if cls != "stochastic_ternary" else
         "stochastic_ternary(alpha='auto')"}
  return d


def gen_aq(rng):
  cls = rng.wpick(A_CLASSES)
  s = qspecs.gen_spec(rng, cls, shape=[2, 3], focus="m")
  kw = s["kw"]
  kw.pop("use_stochastic_rounding", None)
  for k in ("scale_axis", "elements_per_scale", "min_po2_exponent",
            "max_po2_exponent", "post_training_scale"):
    kw.pop(k, None)
  if isinstance(kw.get("alpha"), str) and cls != "quantized_linear":
    kw.pop("alpha")
  if cls == "ternary" and isinstance(kw.get("alpha"), str):
    kw.pop("alpha")
  if cls == "quantized_bits" and kw.get("bits", 8) < 2:
    kw["bits"] = 2
  if rng.chance(0.25) and cls in ("quantized_relu", "quantized_bits",
                                  "quantized_tanh"):
    return {"str": rng.pick({
        "quantized_relu": ["quantized_relu(4)", "quantized_relu(6,2)",
                           "quantized_relu(4,1,0,0.125)"],
        "quantized_bits": ["quantized_bits(4,0,1)", "quantized_bits(8,2)"],
        "quantized_tanh": ["quantized_tanh(4)", "quantized_tanh"],
    }[cls])}
  return {"cls": cls, "kw": kw}


def make_q(desc):
  if desc is None:
    return None
  if "str" in desc:
    return desc["str"]
  return build_quantizer({"cls": desc["cls"], "kw": desc.get("kw", {})})


# ---------------------------------------------------------------------------
# layer templates: (input kind it accepts, function building the spec)
def _t_qdense(rng, di):
  l = {"t": "QDense", "units": rng.pick([2, 3, 4]),
       "use_bias": not rng.chance(0.2),
       "kq": gen_wq(rng, 2, data_independent=di),
       "bq": gen_wq(rng, 1, data_independent=di)}
  if rng.chance(0.3):
    l["aq"] = gen_aq(rng)
  return l


def _t_qconv2d(rng, di):
  l = {"t": "QConv2D", "filters": rng.pick([2, 3]),
       "kernel": rng.pick([1, 2, 3]), "strides": rng.pick([1, 1, 2]),
       "padding": rng.pick(["valid", "same"]),
       "use_bias": not rng.chance(0.2),
       "kq": gen_wq(rng, 4, data_independent=di),
       "bq": gen_wq(rng, 1, data_independent=di)}
  if rng.chance(0.2):
    l["aq"] = gen_aq(rng)
  if l["kernel"] >= 2 and rng.chance(0.2):
    l["mask"] = True      # a kernel mask with zeros (checkerboard)
  return l


def _t_qdw(rng, di):
  return {"t": "QDepthwiseConv2D", "kernel": rng.pick([1, 2, 3]),
          "strides": rng.pick([1, 1, 2]), "padding": rng.pick(["valid", "same"]),
          "depth_multiplier": rng.pick([1, 1, 2]),
          "use_bias": not rng.chance(0.2),
          "dq": gen_wq(rng, 4, data_independent=di),
          "bq": gen_wq(rng, 1, data_independent=di)}


def _t_qsep2d(rng, di):
  return {"t": "QSeparableConv2D", "filters": rng.pick([2, 3]),
          "kernel": rng.pick([1, 2]), "padding": rng.pick(["valid", "same"]),
          "use_bias": not rng.chance(0.2),
          "dq": gen_wq(rng, 4, data_independent=di),
          "pq": gen_wq(rng, 4, data_independent=di),
          "bq": gen_wq(rng, 1, data_independent=di)}


def _t_qbn(rng, di):
  l = {"t": "QBatchNormalization", "center": not rng.chance(0.2),
       "scale": not rng.chance(0.2)}
  if rng.chance(0.5):
    # library defaults (po2 quantizers given as strings)
    l["defaults"] = True
  else:
    bq = [("quantized_bits", 3), ("quantized_po2", 2)]
    l["gq"] = gen_wq(rng, 1, data_independent=di, classes=[
        ("quantized_bits", 2), ("quantized_relu_po2", 2)]) if False else \
        gen_wq(rng, 1, data_independent=True, classes=bq)
    l["beq"] = gen_wq(rng, 1, data_independent=True, classes=bq)
    l["mq"] = gen_wq(rng, 1, data_independent=True, classes=bq)
    l["vq"] = gen_wq(rng, 1, data_independent=True, classes=[
        ("quantized_bits", 1)])
    if l["vq"] is not None:
      l["vq"]["kw"]["keep_negative"] = False
      l["vq"]["kw"]["bits"] = max(3, l["vq"]["kw"].get("bits", 8))
      l["vq"]["kw"]["integer"] = 2
  return l


def _t_qpool(rng, di):
  return {"t": "QAveragePooling2D", "pool": 2,
          "avq": rng.pick([None, {"cls": "quantized_bits",
                                  "kw": {"bits": 8, "integer": 0,
                                         "keep_negative": False}},
                           {"str": "quantized_bits(6,0,1)"}]),
          "aq": gen_aq(rng) if rng.chance(0.3) else None}


def _t_qgpool(rng, di):
  return {"t": "QGlobalAveragePooling2D",
          "avq": rng.pick([None, {"cls": "quantized_bits",
                                  "kw": {"bits": 8, "integer": 0}}]),
          "aq": gen_aq(rng) if rng.chance(0.3) else None}


def _t_qact(rng, di):
  return {"t": "QActivation", "aq": gen_aq(rng)}


def _t_qadaptive(rng, di):
  return {"t": "QAdaptiveActivation", "act": rng.pick(["quantized_relu",
                                                       "quantized_bits"]),
          "bits": rng.pick([4, 6, 8]), "per_channel": rng.chance(0.4),
          "qdelay": rng.pick([1, 2]), "po2_rounding": rng.chance(0.3),
          "symmetric": rng.chance(0.7),
          # the default decay (0.9999) never moves the range within a run
          "ema_decay": rng.pick([0.0, 0.5, 0.9, 0.9999]),
          "relu_neg_slope": rng.pick([0.0, 0.0, 0.125]),
          "relu_upper_bound": rng.pick([None, None, 0.75, 2.0]),
          "ema_freeze_delay": rng.pick([None, None, 2])}


def _t_qscale(rng, di):
  return {"t": "QScaleShift", "use_bias": not rng.chance(0.3),
          "wq": gen_wq(rng, 1, allow_none=False, data_independent=True,
                       classes=[("quantized_bits", 1)]),
          "bq": gen_wq(rng, 1, allow_none=False, data_independent=True,
                       classes=[("quantized_bits", 1)])}


def _t_qconv1d(rng, di):
  l = {"t": "QConv1D", "filters": rng.pick([2, 3]), "kernel": rng.pick([1, 2, 3]),
       "padding": rng.pick(["valid", "same", "causal"]),
       "use_bias": not rng.chance(0.2),
       "kq": gen_wq(rng, 3, data_independent=di),
       "bq": gen_wq(rng, 1, data_independent=di)}
  return l


def _t_qsep1d(rng, di):
  return {"t": "QSeparableConv1D", "filters": rng.pick([2, 3]),
          "kernel": rng.pick([1, 2]), "padding": rng.pick(["valid", "same"]),
          "use_bias": not rng.chance(0.2),
          "dq": gen_wq(rng, 3, data_independent=di),
          "pq": gen_wq(rng, 3, data_independent=di),
          "bq": gen_wq(rng, 1, data_independent=di)}


def _t_qrnn(rng, di, bidir=False):
  kind = rng.pick(["QSimpleRNN", "QLSTM", "QGRU"])
  l = {"t": kind, "units": rng.pick([2, 3]),
       "return_sequences": rng.chance(0.4),
       "use_bias": not rng.chance(0.2),
       "kq": gen_wq(rng, 2, data_independent=di, classes=[
           ("quantized_bits", 4), ("quantized_po2", 1), ("binary", 1)]),
       "rq": gen_wq(rng, 2, data_independent=di, classes=[
           ("quantized_bits", 4), ("quantized_po2", 1)]),
       "bq": gen_wq(rng, 1, data_independent=di, classes=[
           ("quantized_bits", 4)]),
       "sq": rng.pick([None, {"cls": "quantized_bits",
                              "kw": {"bits": 6, "integer": 1}}])}
  if not l["use_bias"]:
    # the RNN cells quantize self.bias even when it is None (C11 territory)
    l["bq"] = None
  if rng.chance(0.35):
    l["act"] = rng.pick([{"str": "quantized_tanh(4)"},
                         {"str": "quantized_relu(4,1)"},
                         {"cls": "quantized_tanh", "kw": {"bits": 6}},
                         {"cls": "quantized_bits", "kw": {"bits": 6,
                                                          "integer": 1}}])
  if kind != "QSimpleRNN" and rng.chance(0.35):
    l["ract"] = rng.pick([{"str": "quantized_sigmoid(4)"},
                          {"cls": "quantized_sigmoid", "kw": {"bits": 6}},
                          {"str": "quantized_relu(3,0)"}])
  if bidir:
    l["bidir"] = True
  elif rng.chance(0.25):
    l["as_cell"] = True
  return l


IMG_T = [(_t_qconv2d, 4), (_t_qdw, 2), (_t_qsep2d, 1.5), (_t_qbn, 2),
         (_t_qpool, 1), (_t_qact, 2), (_t_qscale, 0.5)]
SEQ_T = [(_t_qconv1d, 3), (_t_qsep1d, 1.5), (_t_qrnn, 3), (_t_qact, 1)]
VEC_T = [(_t_qdense, 5), (_t_qact, 2), (_t_qbn, 1)]
# QAdaptiveActivation is only generated for C13 (allow=["adaptive"])
ADAPTIVE_W = 0.8


def gen_model(rng, data_independent=False, allow=None, max_layers=5):
  kind = rng.wpick([("img", 4), ("vec", 3), ("seq", 2)])
  layers = []
  n = rng.randrange(1, max_layers + 1)
  cur = kind
  spatial = 6
  seqlen = INPUTS["seq"][0]
  for i in range(n):
    if cur == "img":
      if spatial <= 2 or rng.chance(0.15):
        if rng.chance(0.4):
          layers.append(_t_qgpool(rng, data_independent))
        else:
          layers.append({"t": "Flatten"})
        cur = "vec"
        continue
      f = rng.wpick(IMG_T + ([(_t_qadaptive, ADAPTIVE_W)]
                             if allow and "adaptive" in allow else []))
      l = f(rng, data_independent)
      if l["t"] in ("QConv2D", "QDepthwiseConv2D", "QSeparableConv2D"):
        k = l["kernel"]
        if l.get("padding") == "valid":
          if spatial - k + 1 < 1:
            l["padding"] = "same"
          else:
            spatial = spatial - k + 1
        s = l.get("strides", 1)
        if s > 1:
          spatial = (spatial + s - 1) // s if l["padding"] == "same" else \
              max(1, (spatial - 1) // s + 1)
      elif l["t"] == "QAveragePooling2D":
        if spatial < 2:
          continue
        spatial = spatial // 2
      layers.append(l)
    elif cur == "seq":
      f = rng.wpick(SEQ_T)
      l = f(rng, data_independent)
      if l["t"] in ("QSimpleRNN", "QLSTM", "QGRU"):
        if rng.chance(0.25):
          l["bidir"] = True
        layers.append(l)
        if not l["return_sequences"]:
          cur = "vec"
      else:
        # keep the sequence length valid (a 'valid' convolution shortens it)
        if l.get("padding") == "valid":
          if seqlen - l["kernel"] + 1 < 1:
            l["padding"] = "same"
          else:
            seqlen = seqlen - l["kernel"] + 1
        layers.append(l)
    else:
      f = rng.wpick(VEC_T + ([(_t_qadaptive, ADAPTIVE_W)]
                             if allow and "adaptive" in allow else []))
      layers.append(f(rng, data_independent))
  if cur == "img":
    layers.append({"t": "Flatten"})
  elif cur == "seq":
    layers.append({"t": "Flatten"})
  m = {"input": kind, "layers": layers, "wseed": rng.subseed(),
       "out": rng.wpick([("dense", 5), ("qdense", 3), ("none", 2)])}
  if m["out"] == "none" and layers and layers[-1]["t"] == "Flatten" and \
      len(layers) == 1:
    m["out"] = "dense"
  if rng.chance(0.25) and kind == "vec":
    m["branch"] = True
  if rng.chance(0.3):
    m["sequential"] = True
    m.pop("branch", None)
  return m


def _layer(l, name):
  """Instantiate one layer from its plain-data description."""
  tf = tf_setup()
  import tf_keras as keras
  import qkeras as qk
  t = l["t"]
  q = make_q
  if t == "Flatten":
    return keras.layers.Flatten(name=name)
  if t == "QDense":
    return qk.QDense(l["units"], use_bias=l["use_bias"],
                     kernel_quantizer=q(l.get("kq")),
                     bias_quantizer=q(l.get("bq")),
                     activation=q(l.get("aq")), name=name)
  if t == "QConv2D":
    mask = None
    if l.get("mask"):
      k = l["kernel"]
      mask = np.fromfunction(lambda i, j: ((i + j) % 2 == 0), (k, k)).astype(
          np.float32)
    return qk.QConv2D(l["filters"], l["kernel"], strides=l.get("strides", 1),
                      padding=l["padding"], use_bias=l["use_bias"],
                      kernel_quantizer=q(l.get("kq")),
                      bias_quantizer=q(l.get("bq")),
                      activation=q(l.get("aq")), mask=mask, name=name)
  if t == "QDepthwiseConv2D":
    return qk.QDepthwiseConv2D(l["kernel"], strides=l.get("strides", 1),
                               padding=l["padding"],
                               depth_multiplier=l.get("depth_multiplier", 1),
                               use_bias=l["use_bias"],
                               depthwise_quantizer=q(l.get("dq")),
                               bias_quantizer=q(l.get("bq")), name=name)
  if t == "QSeparableConv2D":
    return qk.QSeparableConv2D(l["filters"], l["kernel"], padding=l["padding"],
                               use_bias=l["use_bias"],
                               depthwise_quantizer=q(l.get("dq")),
                               pointwise_quantizer=q(l.get("pq")),
                               bias_quantizer=q(l.get("bq")), name=name)
  if t == "QSeparableConv1D":
    return qk.QSeparableConv1D(l["filters"], l["kernel"], padding=l["padding"],
                               use_bias=l["use_bias"],
                               depthwise_quantizer=q(l.get("dq")),
                               pointwise_quantizer=q(l.get("pq")),
                               bias_quantizer=q(l.get("bq")), name=name)
  if t == "QConv1D":
    return qk.QConv1D(l["filters"], l["kernel"], padding=l["padding"],
                      use_bias=l["use_bias"], kernel_quantizer=q(l.get("kq")),
                      bias_quantizer=q(l.get("bq")), name=name)
  if t == "QBatchNormalization":
    kw = {"center": l["center"], "scale": l["scale"], "name": name}
    if not l.get("defaults"):
      kw.update(gamma_quantizer=q(l.get("gq")), beta_quantizer=q(l.get("beq")),
                mean_quantizer=q(l.get("mq")),
                variance_quantizer=q(l.get("vq")))
      if "iq" in l:
        kw["inverse_quantizer"] = q(l.get("iq"))
    return qk.QBatchNormalization(**kw)
  if t == "QAveragePooling2D":
    return qk.QAveragePooling2D(pool_size=l["pool"],
                                average_quantizer=q(l.get("avq")),
                                activation=q(l.get("aq")), name=name)
  if t == "QGlobalAveragePooling2D":
    return qk.QGlobalAveragePooling2D(average_quantizer=q(l.get("avq")),
                                      activation=q(l.get("aq")), name=name)
  if t == "QActivation":
    return qk.QActivation(q(l["aq"]), name=name)
  if t == "QAdaptiveActivation":
    import contextlib
    import io
    with contextlib.redirect_stderr(io.StringIO()):
      return qk.QAdaptiveActivation(l["act"], l["bits"],
                                    per_channel=l.get("per_channel", False),
                                    quantization_delay=l.get("qdelay", 1),
                                    po2_rounding=l.get("po2_rounding", False),
                                    symmetric=l.get("symmetric", True),
                                    ema_decay=l.get("ema_decay", 0.9999),
                                    relu_neg_slope=l.get("relu_neg_slope", 0.0),
                                    relu_upper_bound=l.get("relu_upper_bound"),
                                    ema_freeze_delay=l.get("ema_freeze_delay"),
                                    name=name)
  if t == "QScaleShift":
    return qk.QScaleShift(weight_quantizer=q(l.get("wq")),
                          bias_quantizer=q(l.get("bq")),
                          use_bias=l["use_bias"], name=name)
  if t in ("QSimpleRNN", "QLSTM", "QGRU"):
    cls = getattr(qk, t)
    kw = dict(use_bias=l["use_bias"], kernel_quantizer=q(l.get("kq")),
              recurrent_quantizer=q(l.get("rq")), bias_quantizer=q(l.get("bq")),
              state_quantizer=q(l.get("sq")),
              return_sequences=l["return_sequences"])
    if l.get("act"):
      kw["activation"] = l["act"]["str"] if "str" in l["act"] else q(l["act"])
    if l.get("ract") and t != "QSimpleRNN":
      kw["recurrent_activation"] = l["ract"]["str"] if "str" in l["ract"] \
          else q(l["ract"])
    if l.get("bidir"):
      return qk.QBidirectional(cls(l["units"], **kw), name=name)
    if l.get("as_cell"):
      # the cell classes are public (and in the custom-object table): stock
      # keras.layers.RNN wrapping a quantized cell
      import tf_keras as keras
      rs = kw.pop("return_sequences")
      return keras.layers.RNN(getattr(qk, t + "Cell")(l["units"], **kw),
                              return_sequences=rs, name=name)
    return cls(l["units"], name=name, **kw)
  if t == "QConv2DBatchnorm":
    return qk.QConv2DBatchnorm(
        l["filters"], l["kernel"], strides=l.get("strides", 1),
        padding=l["padding"], use_bias=l["use_bias"],
        kernel_quantizer=q(l.get("kq")), bias_quantizer=q(l.get("bq")),
        center=l.get("center", True), scale=l.get("scale", True),
        ema_freeze_delay=l.get("ema_freeze_delay"),
        folding_mode=l.get("folding_mode", "ema_stats_folding"), name=name)
  if t == "QDepthwiseConv2DBatchnorm":
    return qk.QDepthwiseConv2DBatchnorm(
        l["kernel"], strides=l.get("strides", 1), padding=l["padding"],
        use_bias=l["use_bias"], depthwise_quantizer=q(l.get("dq")),
        bias_quantizer=q(l.get("bq")), center=l.get("center", True),
        scale=l.get("scale", True), ema_freeze_delay=l.get("ema_freeze_delay"),
        folding_mode=l.get("folding_mode", "ema_stats_folding"), name=name)
  raise HarnessError("layer template " + t)


def build_model(mspec):
  """Build and weight-initialise the model described by mspec."""
  tf = tf_setup()
  import tf_keras as keras
  shape = INPUTS[mspec["input"]]
  layers = [_layer(l, "l%d_%s" % (i, l["t"].lower()))
            for i, l in enumerate(mspec["layers"])]
  def out_layers():
    o = mspec.get("out", "dense")
    if o == "dense":
      return [keras.layers.Dense(2, name="out")]
    if o == "qdense":
      import qkeras as qk
      return [qk.QDense(2, kernel_quantizer=make_q(
          {"cls": "quantized_bits", "kw": {"bits": 6, "integer": 1,
                                           "alpha": 1.0}}),
                        bias_quantizer=make_q(
                            {"cls": "quantized_bits",
                             "kw": {"bits": 6, "integer": 1}}), name="out")]
    return []          # "none": the model ends with its last generated layer
  if mspec.get("sequential"):
    model = keras.Sequential([keras.Input(shape, name="in")] + layers +
                             out_layers(), name="m")
  else:
    inp = keras.Input(shape, name="in")
    x = inp
    for lay in layers:
      x = lay(x)
    if mspec.get("branch"):
      import qkeras as qk
      a = qk.QDense(3, kernel_quantizer="quantized_bits(4,0,1)", name="br_a")(x)
      b = keras.layers.Dense(3, name="br_b")(x)
      x = keras.layers.Add(name="br_add")([a, b])
    for lay in out_layers():
      x = lay(x)
    model = keras.Model(inp, x, name="m")
  set_seeded_weights(model, mspec.get("wseed", 0))
  return model


def set_seeded_weights(model, seed, scale=1.0):
  """Deterministic trained-like weights (explicit, not from initializers)."""
  g = np.random.Generator(np.random.PCG64(int(seed)))
  new = []
  for layer in model.layers:
    ws = layer.get_weights()
    if not ws:
      continue
    names = [w.name for w in layer.weights]
    out = []
    for w, nm in zip(ws, names):
      if "variance" in nm:
        a = g.uniform(0.3, 2.0, w.shape)
      elif "gamma" in nm:
        a = g.uniform(0.5, 1.5, w.shape) * np.where(g.random(w.shape) < 0.2,
                                                    -1.0, 1.0)
      elif "iteration" in nm or w.dtype.kind in "iu":
        a = w
      else:
        a = g.standard_normal(w.shape) * 0.6 * scale
      out.append(np.asarray(a, dtype=w.dtype))
    layer.set_weights(out)


def probe_batch(mspec, seed=7, n=3):
  g = np.random.Generator(np.random.PCG64(int(seed)))
  return g.standard_normal((n,) + INPUTS[mspec["input"]]).astype(np.float32)


def predict(model, x):
  tf = tf_setup()
  return np.asarray(model(tf.constant(x), training=False).numpy())


def weights_snapshot(model):
  return [np.copy(w) for w in model.get_weights()]


def same_weights(a, b):
  if len(a) != len(b):
    return False
  return all(x.shape == y.shape and np.array_equal(x, y, equal_nan=True)
             for x, y in zip(a, b))


def _cfg_str(q):
  def norm(v):
    if isinstance(v, (np.floating, float)):
      return float(v)
    if isinstance(v, (np.integer,)):
      return int(v)
    if isinstance(v, np.ndarray):
      return v.tolist()
    return v
  return "%s:%s" % (type(q).__name__, json.dumps(
      {k: norm(v) for k, v in q.get_config().items()}, sort_keys=True,
      default=repr))


def quantizer_report(model):
  """String forms of every layer's quantizers (None where absent)."""
  out = []
  for layer in model.layers:
    if hasattr(layer, "get_quantizers"):
      qs = []
      for q in layer.get_quantizers():
        try:
          qs.append(str(q))
        except Exception:  # pylint: disable=broad-except
          # quantized_hswish.__str__ / quantized_linear.__str__ raise for some
          # options (C10 territory); fall back to class + config so that the
          # comparison is still about sameness
          qs.append(_cfg_str(q))
      out.append((layer.name, qs))
    elif hasattr(getattr(layer, "cell", None), "get_quantizers"):
      qs = []
      for q in layer.cell.get_quantizers():
        try:
          qs.append(str(q))
        except Exception:  # pylint: disable=broad-except
          qs.append(_cfg_str(q))
      out.append((layer.name + "/cell", qs))
    if type(layer).__name__ == "QActivation":
      # the quantizer in use, whatever form (string / object) configured it
      a = getattr(layer, "quantizer", None)
      if a is not None and hasattr(a, "get_config"):
        try:
          out.append((layer.name + "/quantizer", [str(a)]))
        except Exception:  # pylint: disable=broad-except
          out.append((layer.name + "/quantizer", [_cfg_str(a)]))
    elif hasattr(layer, "activation") and not isinstance(
        getattr(layer, "activation", None), str):
      a = getattr(layer, "activation", None)
      if a is not None and hasattr(a, "get_config"):
        try:
          out.append((layer.name + "/activation", [str(a)]))
        except Exception:  # pylint: disable=broad-except
          out.append((layer.name + "/activation", [_cfg_str(a)]))
  return out


# ---------------------------------------------------------------------------
# restart routes
class Scratch:
  """Scratch directory for path-based APIs; removed at the end of the run."""

  def __init__(self):
    self.dir = None

  def path(self, name):
    if self.dir is None:
      self.dir = tempfile.mkdtemp(prefix="verif-m-")
    return os.path.join(self.dir, name)

  def close(self):
    if self.dir:
      shutil.rmtree(self.dir, ignore_errors=True)
      self.dir = None


def restart_model(model, route, scratch, simfile_kw=None, compile_load=False,
                  include_optimizer=False):
  """Rebuild the model from durable state only.  No custom objects passed."""
  tf = tf_setup()
  import h5py
  from qkeras import utils as qu
  if route == "json":
    m2 = qu.quantized_model_from_json(model.to_json())
    m2.set_weights(model.get_weights())
    return m2
  if route == "clone":
    return qu.clone_model(model)
  if route == "h5_path":
    p = scratch.path("model.h5")
    model.save(p, include_optimizer=include_optimizer)
    return qu.load_qmodel(p, compile=compile_load)
  if route == "h5_fileobj":
    sf = SimFile(**(simfile_kw or {}))
    with h5py.File(sf, "w") as f:
      model.save(f, include_optimizer=include_optimizer)
    data = bytes(sf.buf)
    with h5py.File(SimFile(data), "r") as f:
      return qu.load_qmodel(f, compile=compile_load)
  if route == "weights_file":
    p = scratch.path("w.h5")
    model.save_weights(p)
    m2 = qu.quantized_model_from_json(model.to_json())
    m2.load_weights(p)
    return m2
  raise HarnessError("route " + route)


ROUTES = ["json", "clone", "h5_path", "h5_fileobj", "weights_file"]
