"""C08 - stochastic rounding: adjacent code, unbiased in training, exact at
inference.

The uniform draw and the learning phase are the two nondeterminism sources of
this property; both are behind seams the scheduler owns.

* adjacency ("never further than the adjacent code"): in training phase every
  output element must lie on the code grid of the format, inside its range, and
  strictly less than one step away from the clipped surrogate input.  The seam
  modes `zero` and `one_minus` force both extreme branches for every element.
* codes unchanged: elements that are already codes come back unchanged for
  every draw, including U = 0 and U = 1-2^-24.
* unbiased (no statistics): SWEEP delivers the K stratified draws (k+1/2)/K to
  all elements in K consecutive calls; for any rounding that thresholds one
  uniform draw the mean over the strata differs from the input by <= step/K.
* inference: in phase 0 the output equals, bit for bit, the sibling built
  with use_stochastic_rounding=False (stochastic_binary == binary,
  stochastic_ternary == ternary) whatever the seam would return.

What is judged where (DESIGN 4/C08): grid + adjacency + unbiasedness for the
rounding family (quantized_bits, quantized_linear, quantized_hswish,
quantized_relu, quantized_tanh, quantized_sigmoid, quantized_po2,
quantized_relu_po2); for the sign family (binary / ternary with stochastic
rounding, stochastic_binary, stochastic_ternary) the draw selects a code by a
documented sampling law (temperature, sigmoid), so only code membership with
the exposed scale, sign-consistency at the extreme draws and the inference
clause are judged.
"""
import json

import numpy as np

from . import engine_q as Q
from . import qspecs
from .core import HarnessError, InjectedFault
from .seams import tf_setup

CLASSES = ["quantized_bits", "quantized_linear", "quantized_hswish",
           "quantized_relu", "quantized_tanh", "quantized_sigmoid",
           "quantized_po2", "quantized_relu_po2", "binary", "ternary",
           "stochastic_binary", "stochastic_ternary"]
ROUNDING = {"quantized_bits", "quantized_linear", "quantized_hswish",
            "quantized_relu", "quantized_tanh", "quantized_sigmoid",
            "quantized_po2", "quantized_relu_po2"}
EPS = 1e-7   # K.epsilon()


def det_spec(spec):
  """The round-to-nearest sibling."""
  c, kw = spec["cls"], dict(spec["kw"])
  kw.pop("use_stochastic_rounding", None)
  if c == "stochastic_binary":
    return {"cls": "binary", "kw": {k: v for k, v in kw.items()
                                    if k in ("alpha",)}, "shape": spec["shape"]}
  if c == "stochastic_ternary":
    return {"cls": "ternary", "kw": {k: v for k, v in kw.items() if k in (
        "alpha", "threshold", "number_of_unrolls")}, "shape": spec["shape"]}
  return {"cls": c, "kw": kw, "shape": spec["shape"]}


def hard_sigmoid(x):
  return np.clip(0.5 * x + 0.5, 0.0, 1.0)


def grid_of(spec, q, x):
  """Format definition of the rounding family.

  Returns dict(u=clipped surrogate input (float64), step, lo, hi, off) with
  codes = off + k*step for integer k, lo <= code <= hi; or None when this
  configuration is judged for inference only."""
  c, kw = spec["cls"], spec["kw"]
  x64 = x.astype(np.float64)
  if kw.get("qnoise_factor", 1.0) != 1.0:
    return None
  if c in ("quantized_bits", "quantized_hswish"):
    if isinstance(kw.get("alpha"), str):
      return None
    bits = kw.get("bits", 8)
    kn = 1 if kw.get("keep_negative", True) else 0
    if c == "quantized_hswish":
      kn = 1
    ub = bits - kn
    if ub <= 0:
      return None
    integer = kw.get("integer", 0)
    alpha = kw.get("alpha") or 1.0
    sym = 1 if kw.get("symmetric", 0) else 0
    m = 2.0 ** ub
    step0 = 2.0 ** integer / m          # grid of xq before the alpha factor
    v = x64
    if c == "quantized_hswish":
      sh = kw.get("relu_shift", 3)
      ubd = kw.get("relu_upper_bound", 6)
      x32 = x.astype(np.float32)
      r = np.where(x32 + np.float32(sh) <= ubd,
                   np.maximum(x32 + np.float32(sh), 0), np.float32(ubd))
      v = (x32 * r.astype(np.float32) / np.float32(ubd)).astype(np.float64)
    lo = kn * (-m + sym) * step0
    hi = (m - 1) * step0
    # the code grid is alpha * k * step0; the rounded quantity is v itself
    return {"u": np.clip(v, lo, hi) * alpha, "step": step0 * alpha,
            "lo": lo * alpha, "hi": hi * alpha, "off": 0.0,
            "approx": c == "quantized_hswish"}
  if c == "quantized_linear":
    if isinstance(kw.get("alpha"), str):
      # the auto scale is itself computed with stochastically rounded codes:
      # the grid depends on the draw and is not a fixed format (not judged)
      return None
    qs = np.asarray(q.quantization_scale, dtype=np.float64)
    bits = kw.get("bits", 8)
    kn = 1 if kw.get("keep_negative", True) else 0
    sym = 1 if kw.get("symmetric", 1) else 0
    if bits == 1 and kn:
      lo, hi, off = -0.5, 0.5, 0.5
    else:
      p = 2.0 ** (bits - kn)
      lo, hi, off = kn * (-p + sym), p - 1.0, 0.0
    qs = np.broadcast_to(qs, x.shape) if qs.ndim else qs
    return {"u": np.clip(x64 / qs, lo, hi) * qs, "step": qs, "lo": lo * qs,
            "hi": hi * qs, "off": off * qs,
            "approx": isinstance(kw.get("alpha"), str)}
  if c == "quantized_relu":
    if kw.get("use_sigmoid") or not kw.get("is_quantized_clip", True) or \
        kw.get("relu_upper_bound") is not None:
      return None
    bits = kw.get("bits", 8)
    slope = kw.get("negative_slope", 0.0)
    nsb = bits - (1 if slope != 0.0 else 0)
    if nsb <= 0:
      return None
    if slope and slope * 2.0 ** nsb < 1.0:
      # the negative range (-slope*2^integer) is narrower than one step: the
      # lower clip value is not on the code grid; degenerate format, not judged
      return None
    integer = kw.get("integer", 0)
    m = 2.0 ** nsb
    m_i = 2.0 ** integer
    step = m_i / m
    u = np.where(x64 >= 0, x64, slope * x64)
    lo = -slope * m_i
    hi = (m - 1) * step
    return {"u": np.clip(u, lo, hi), "step": step, "lo": lo, "hi": hi,
            "off": 0.0}
  if c == "quantized_tanh":
    bits = kw.get("bits", 8)
    m = 2.0 ** (bits - 1)
    sym = 1.0 if kw.get("symmetric") else 0.0
    if kw.get("use_real_tanh"):
      u = np.tanh(x64)
    else:
      u = 2.0 * hard_sigmoid(x64) - 1.0
    lo, hi = -1.0 + sym / m, 1.0 - 1.0 / m
    return {"u": np.clip(u, lo, hi), "step": 1.0 / m, "lo": lo, "hi": hi,
            "off": 0.0, "approx": True}
  if c == "quantized_sigmoid":
    bits = kw.get("bits", 8)
    m = 2.0 ** bits
    sym = 1.0 if kw.get("symmetric") else 0.0
    if kw.get("use_real_sigmoid"):
      u = 1.0 / (1.0 + np.exp(-x64))
    else:
      u = hard_sigmoid(x64)
    lo, hi = sym / m, 1.0 - 1.0 / m
    return {"u": np.clip(u, lo, hi), "step": 1.0 / m, "lo": lo, "hi": hi,
            "off": 0.0, "approx": True}
  return None


def po2_range(spec):
  c, kw = spec["cls"], spec["kw"]
  bits = kw.get("bits", 8)
  mv = kw.get("max_value")
  need = 0 if (mv is not None and mv <= 1) else 1
  if c == "quantized_po2":
    eff = bits - 1 - need
  else:
    eff = bits - need
  return -2 ** eff, 2 ** eff - 1


class Oracle(Q.QOracle):
  focus = "c08"

  def start(self):
    self.det = [Q.build_quantizer(det_spec(s)) for s in self.w.specs]

  # -- inference ---------------------------------------------------------
  def _inference(self, qi, op, x, y, scale):
    w, ctx = self.w, self.ctx
    spec = w.specs[qi]
    d = self.det[qi]
    dy = w.call_raw(d, x, op.get("sub", 0))
    ds = Q.read_scale(d)
    ctx.checked()
    ctx.probe("inference_compared")
    if not Q.same(y, dy):
      ctx.violation("%s|inference-differs-from-round-to-nearest" % spec["cls"],
                    "phase 0: output differs from the deterministic sibling; "
                    "kw=%r seam=%r maxdiff=%g" % (spec["kw"], w.seam.mode,
                                                  _maxdiff(y, dy)))
    elif not Q.same(scale, ds):
      ctx.violation("%s|inference-scale-differs" % spec["cls"],
                    "phase 0: exposed scale differs from the deterministic "
                    "sibling; kw=%r" % (spec["kw"],))

  # -- training ----------------------------------------------------------
  def _training(self, qi, op, x, y, scale):
    w, ctx = self.w, self.ctx
    spec = w.specs[qi]
    c = spec["cls"]
    mode = w.seam.mode["m"]
    if c in ("quantized_po2", "quantized_relu_po2"):
      self._po2_adjacent(qi, spec, x, y)
      return
    if c in ROUNDING:
      g = grid_of(spec, w.qs[qi], x)
      if g is None:
        ctx.probe("training_not_judged_config")
        return
      ctx.checked()
      ctx.probe("adjacency_checked_" + mode)
      msg = check_grid(g, x, y)
      if msg:
        ctx.violation("%s|training:%s" % (c, msg[0]),
                      "%s; kw=%r seam=%r" % (msg[1], spec["kw"], w.seam.mode))
      return
    # sign family: code membership with the exposed scale
    self._sign_family(qi, spec, x, y, scale)

  def _sign_family(self, qi, spec, x, y, scale):
    ctx = self.ctx
    c, kw = spec["cls"], spec["kw"]
    ctx.checked()
    ctx.probe("sign_family_membership")
    if isinstance(scale, str):
      return
    s = np.asarray(1.0 if scale is None else scale, np.float64)
    s = np.broadcast_to(s, y.shape) if s.ndim else np.full(y.shape, float(s))
    y64 = y.astype(np.float64)
    # y = x + stop_gradient(-x + s*code): cancellation error up to one ulp of x
    tol = 1e-6 * np.maximum(np.abs(s), 1e-30) + 2.4e-7 * np.abs(
        x.astype(np.float64))
    if c in ("binary", "stochastic_binary"):
      if kw.get("use_01"):
        ok = (np.abs(y64) <= tol) | (np.abs(y64 - s) <= tol)
      else:
        ok = np.abs(np.abs(y64) - np.abs(s)) <= tol
    else:
      ok = (np.abs(y64) <= tol) | (np.abs(np.abs(y64) - np.abs(s)) <= tol)
    if not ok.all():
      i = int(np.argmin(ok.reshape(-1)))
      ctx.violation("%s|training:not-a-code" % c,
                    "training output %r is not a code of scale %r; kw=%r" % (
                        float(y64.reshape(-1)[i]), float(s.reshape(-1)[i]), kw))
      return

  def _po2_adjacent(self, qi, spec, x, y):
    ctx, w = self.ctx, self.w
    c, kw = spec["cls"], spec["kw"]
    if kw.get("qnoise_factor", 1.0) != 1.0 or kw.get("quadratic_approximation") \
        or kw.get("log2_rounding", "rnd") != "rnd":
      ctx.probe("training_not_judged_config")
      return
    ctx.checked()
    ctx.probe("adjacency_checked_" + w.seam.mode["m"])
    msg = check_po2(spec, x, y)
    if msg:
      ctx.violation("%s|training:%s" % (c, msg[0]),
                    "%s; kw=%r seam=%r" % (msg[1], kw, w.seam.mode))

  # -- hooks -------------------------------------------------------------
  def on_call(self, qi, op, x, y, scale, failed):
    if failed:
      return
    if self.w.phase == 0:
      self._inference(qi, op, x, y, scale)
    else:
      self._training(qi, op, x, y, scale)

  def sweep(self, qi, op):
    """K stratified draws to all elements: mean must be the input."""
    w, ctx = self.w, self.ctx
    spec = w.specs[qi]
    c = spec["cls"]
    if c not in ROUNDING or w.phase != 1:
      return
    K = int(op["K"])
    x = Q.make_tensor(spec["shape"], op["t"])
    saved = dict(w.seam.mode)
    w.seam.fail_next = False
    ys = []
    try:
      for k in range(K):
        w.seam.set_mode({"m": "strata", "k": k, "K": K})
        ok, y = Q.guard(ctx, "%s|call" % c, w.call_raw, w.qs[qi], x, 0)
        if not ok:
          return
        ys.append(y.astype(np.float64))
    finally:
      w.seam.set_mode(saved)
    ctx.fault("strata_sweep")
    mean = np.mean(ys, axis=0)
    ctx.log("sweep", mean.astype(np.float32))
    if c in ("quantized_po2", "quantized_relu_po2"):
      kw = spec["kw"]
      if kw.get("qnoise_factor", 1.0) != 1.0 or \
          kw.get("quadratic_approximation") or \
          kw.get("log2_rounding", "rnd") != "rnd":
        return
      tgt, width, judged = po2_target(spec, x)
      ctx.checked()
      ctx.probe("unbiased_checked_po2")
      err = np.abs(mean - tgt)
      bad = judged & (err > width / K * 1.02 + 1e-6 * np.abs(tgt) + 1e-30)
      if bad.any():
        i = int(np.argmax((err * bad).reshape(-1)))
        ctx.violation("%s|training:biased" % c,
                      "mean over %d strata is %r for clipped input %r (gap "
                      "width %r); kw=%r" % (K, float(mean.reshape(-1)[i]),
                                            float(tgt.reshape(-1)[i]),
                                            float(width.reshape(-1)[i]), kw))
      return
    g = grid_of(spec, w.qs[qi], x)
    if g is None:
      return
    ctx.checked()
    ctx.probe("unbiased_checked")
    step = np.broadcast_to(np.asarray(g["step"], np.float64), x.shape)
    tol = step / K * 1.02 + (1e-4 * step if g.get("approx") else 1e-9 * step)
    err = np.abs(mean - g["u"])
    if (err > tol).any():
      i = int(np.argmax((err - tol).reshape(-1)))
      ctx.violation("%s|training:biased" % c,
                    "mean over %d strata is %r for clipped input %r (step %r)"
                    "; kw=%r" % (K, float(mean.reshape(-1)[i]),
                                 float(np.asarray(g["u"]).reshape(-1)[i]),
                                 float(step.reshape(-1)[i]), spec["kw"]))


def check_grid(g, x, y):
  y64 = y.astype(np.float64)
  step = np.broadcast_to(np.asarray(g["step"], np.float64), y.shape)
  off = np.broadcast_to(np.asarray(g["off"], np.float64), y.shape)
  lo = np.broadcast_to(np.asarray(g["lo"], np.float64), y.shape)
  hi = np.broadcast_to(np.asarray(g["hi"], np.float64), y.shape)
  u = np.asarray(g["u"], np.float64)
  k = (y64 - off) / step
  rel = 1e-5 if g.get("approx") else 1e-9
  # the straight-through expression x + (-x + xq) loses up to one ulp of x
  ulp_k = 2.4e-7 * np.abs(x.astype(np.float64)) / step
  offgrid = np.abs(k - np.round(k)) > 1e-4 + ulp_k
  if offgrid.any():
    i = int(np.argmax(offgrid.reshape(-1)))
    return ("off-grid", "output %r is not a code (step %r, %r steps)" % (
        float(y64.reshape(-1)[i]), float(step.reshape(-1)[i]),
        float(k.reshape(-1)[i])))
  out = (y64 < lo - (rel + ulp_k) * step) | (y64 > hi + (rel + ulp_k) * step)
  if out.any():
    i = int(np.argmax(out.reshape(-1)))
    return ("out-of-range", "output %r outside [%r, %r]" % (
        float(y64.reshape(-1)[i]), float(lo.reshape(-1)[i]),
        float(hi.reshape(-1)[i])))
  far = np.abs(y64 - u) >= step * (1.0 + (1e-3 if g.get("approx") else 1e-6)
                                   + ulp_k)
  if far.any():
    i = int(np.argmax(far.reshape(-1)))
    return ("not-adjacent", "output %r is %r steps from the clipped input %r"
            % (float(y64.reshape(-1)[i]),
               float((np.abs(y64 - u) / step).reshape(-1)[i]),
               float(u.reshape(-1)[i])))
  if not g.get("approx"):
    ku = (u - off) / step
    iscode = np.abs(ku - np.round(ku)) < 1e-12
    moved = iscode & (np.abs(y64 - u) > (1e-9 + ulp_k) * step)
    if moved.any():
      i = int(np.argmax(moved.reshape(-1)))
      return ("code-moved", "input %r is a code but came back as %r" % (
          float(u.reshape(-1)[i]), float(y64.reshape(-1)[i])))
  return None


def po2_target(spec, x):
  """(clipped |input| with sign, width of the gap between the two adjacent
  codes, mask of judged elements) in the linear domain."""
  c, kw = spec["cls"], spec["kw"]
  emin, emax = po2_range(spec)
  mv = kw.get("max_value")
  slope = kw.get("negative_slope", 0) if c == "quantized_relu_po2" else None
  x64 = x.astype(np.float64)
  if c == "quantized_po2":
    mag = np.abs(x64)
    sgn = np.where(x64 < 0, -1.0, 1.0)
  else:
    mag = np.where(x64 >= 0, x64, (slope or 0.0) * -x64)
    sgn = np.where((x64 >= 0) | (not slope), 1.0, -1.0)
  tiny = mag < EPS
  a = np.maximum(mag, EPS)
  if mv is not None:
    a = np.minimum(a, mv)
  a = np.clip(a, 2.0 ** emin, 2.0 ** emax)
  e = np.log2(a)
  lo = np.floor(e)
  hi = np.ceil(e)
  width = 2.0 ** hi - 2.0 ** lo
  # judged: magnitude inside the representable exponent range, away from the
  # epsilon floor (log(y+eps) in the implementation shifts tiny values)
  judged = (~tiny) & (mag > 1e-3) & (mag >= 2.0 ** emin) & (
      (mag <= 2.0 ** emax) if mv is None else (mag <= min(2.0 ** emax, mv)))
  return sgn * a, width, judged


def check_po2(spec, x, y):
  c, kw = spec["cls"], spec["kw"]
  emin, emax = po2_range(spec)
  y64 = y.astype(np.float64)
  if not np.isfinite(y64).all():
    return ("not-finite", "non-finite output")
  tgt, width, judged = po2_target(spec, x)
  if emin <= -126:
    # 2**emin underflows float32: a zero output for the smallest code is a
    # representation limit (C03 territory), not judged here
    judged = judged & (y64 != 0)
    y64 = np.where(y64 == 0, 2.0 ** emin, y64)
  # x + stop_gradient(-x + xq) loses up to one ulp of x: elements whose code
  # is not far above that error cannot be read back from the output
  x64 = np.abs(x.astype(np.float64))
  lost = np.abs(tgt) * 0.5 < 1e-5 * x64 + 0.0
  lost = lost | (np.abs(y64) < 1e-5 * x64)
  judged = judged & ~lost
  y64 = np.where(lost, np.where(tgt < 0, -1.0, 1.0) * 2.0 ** np.clip(
      np.round(np.log2(np.maximum(np.abs(tgt), 1e-300))), emin, emax), y64)
  if (y64 == 0).any():
    return ("not-a-power-of-two", "zero output")
  e = np.log2(np.abs(y64))
  if (np.abs(e - np.round(e)) > 1e-6 + 4e-7 * x64 / np.abs(y64)).any():
    i = int(np.argmax(np.abs(e - np.round(e)).reshape(-1)))
    return ("not-a-power-of-two", "output %r" % float(y64.reshape(-1)[i]))
  e = np.round(e)
  if ((e < emin) | (e > emax)).any():
    i = int(np.argmax(((e < emin) | (e > emax)).reshape(-1)))
    return ("exponent-out-of-range", "output %r exponent outside [%d,%d]" % (
        float(y64.reshape(-1)[i]), emin, emax))
  a = np.abs(tgt)
  lo = np.floor(np.log2(a) + 1e-9 * 0)
  hi = np.ceil(np.log2(a))
  # tolerate the eps shift of log(y + eps): exact powers may be seen as
  # slightly above themselves; accept e in [lo, hi] computed on a*(1 +- 1e-6)
  lo2 = np.floor(np.log2(a * (1 - 1e-6)))
  hi2 = np.ceil(np.log2(a * (1 + 1e-6)))
  far = judged & ((e < np.minimum(lo, lo2)) | (e > np.maximum(hi, hi2)))
  if far.any():
    i = int(np.argmax(far.reshape(-1)))
    return ("not-adjacent", "input %r (clipped %r) gave %r" % (
        float(x.reshape(-1)[i]), float(tgt.reshape(-1)[i]),
        float(y64.reshape(-1)[i])))
  sgn_bad = judged & (np.sign(y64) != np.sign(tgt))
  if sgn_bad.any():
    i = int(np.argmax(sgn_bad.reshape(-1)))
    return ("sign", "input %r gave %r" % (float(x.reshape(-1)[i]),
                                          float(y64.reshape(-1)[i])))
  la = np.log2(a)
  iscode = judged & (np.abs(la - np.round(la)) < 1e-12)
  moved = iscode & (np.abs(np.abs(y64) - a) > 1e-9 * a)
  if moved.any():
    i = int(np.argmax(moved.reshape(-1)))
    return ("code-moved", "input %r is a code but came back as %r" % (
        float(tgt.reshape(-1)[i]), float(y64.reshape(-1)[i])))
  return None


def _maxdiff(a, b):
  a, b = np.asarray(a, np.float64), np.asarray(b, np.float64)
  if a.shape != b.shape:
    return float("inf")
  return float(np.nanmax(np.abs(a - b))) if a.size else 0.0


# ---------------------------------------------------------------------------
ENGINE = "Q"
LEVEL = "exploration"
RULE = ("scenario = 1-3 stochastic quantizers from the option lattice + seeded "
        "ops (CALL / PHASE flips / RNG seam modes prng,zero,one_minus,strata,"
        "const / SWEEP of K stratified draws / FAILDRAW) plus a deterministic "
        "sweep {class x option} x {both phases} x {all seam modes}; non-trivial "
        "= at least one fault (phase flip, seam mode change, sweep, failed "
        "draw) fired and an oracle check ran afterwards; distinct = distinct "
        "(op-kind sequence, fired fault kinds, class/option-key bucket)")
REAL = ["qkeras.quantizers (stochastic paths: stochastic_round, "
        "stochastic_round_po2, _round_through, smart_cond on learning phase)",
        "TensorFlow kernels"]
STUB = ["tf.random.uniform (seam: seeded / forced-extreme / stratified draws)",
        "learning phase (K.set_learning_phase driven by the scheduler)"]

WEIGHTS = {"CALL": 10, "PHASE": 3, "RNG": 4, "SWEEP": 2, "FAILDRAW": 0.5}
KINDS = [("gauss", 4), ("uniform", 3), ("grid", 3), ("halfgrid", 1),
         ("po2", 2), ("mixed", 2), ("zeros", 0.5), ("zero_channel", 1)]
MAGS = [1.0, 1.0, 0.3, 3.0, 0.05, 10.0]


def c08_spec(rng, cls):
  s = qspecs.gen_spec(rng, cls, focus="c08")
  kw = s["kw"]
  kw.pop("qnoise_factor", None) if rng.chance(0.8) else None
  if cls in ROUNDING | {"binary", "ternary"}:
    if cls == "ternary" and not isinstance(kw.get("alpha"), str):
      kw.pop("threshold", None)
      kw["alpha"] = rng.pick(["auto", "auto_po2"])
    if cls == "quantized_bits" and isinstance(kw.get("alpha"), str):
      kw.pop("alpha")
      for k in ("scale_axis", "elements_per_scale", "min_po2_exponent",
                "max_po2_exponent"):
        kw.pop(k, None)
    if cls in ("quantized_po2", "quantized_relu_po2"):
      kw.pop("log2_rounding", None)
    kw["use_stochastic_rounding"] = True
  return s


def apply_extra(ctx, w, oracle, op):
  if op["k"] == "SWEEP":
    oracle.sweep(op["q"] % w.n(), op)
    return True
  return False


def execute(scn, known=(), stop=True):
  return Q.execute("C08", scn, known, {"C08": Oracle}, stop,
                   extra=apply_extra)


def gen_ops(rng, world, n):
  ops = Q.gen_ops(rng, world, {k: v for k, v in WEIGHTS.items()
                               if k != "SWEEP"}, n, KINDS, MAGS)
  nq = len(world["quantizers"])
  out = []
  for op in ops:
    out.append(op)
    if rng.chance(0.12):
      out.append({"k": "PHASE", "p": 1})
      out.append({"k": "SWEEP", "q": rng.randrange(nq), "K": rng.pick([16, 32, 64]),
                  "t": Q.gen_tensor(rng, KINDS, MAGS)})
  return out


def generate(rng):
  nq = rng.wpick([(1, 5), (2, 3), (3, 1)])
  world = {"quantizers": [c08_spec(rng, rng.pick(CLASSES)) for _ in range(nq)]}
  ops = gen_ops(rng, world, rng.randrange(8, 28))
  return {"seed": rng.subseed(), "world": world, "ops": ops}


def directed():
  out = []
  modes = [{"m": "zero"}, {"m": "one_minus"}, {"m": "prng", "seed": 5},
           {"m": "const", "u": 0.5}]
  tensors = [{"kind": "gauss", "seed": 21, "mag": 1.0},
             {"kind": "grid", "seed": 22, "mag": 2.0, "step": 0.125},
             {"kind": "po2", "seed": 23, "mag": 1.0},
             {"kind": "uniform", "seed": 24, "mag": 0.9},
             {"kind": "mixed", "seed": 25, "mag": 3.0}]
  for label, spec in qspecs.option_probe_specs():
    if spec["cls"] not in CLASSES:
      continue
    kw = dict(spec["kw"])
    cls = spec["cls"]
    if cls == "ternary" and not isinstance(kw.get("alpha"), str):
      continue
    if cls == "quantized_bits" and isinstance(kw.get("alpha"), str):
      continue
    if "qnoise_factor" in kw or "log2_rounding" in kw:
      continue
    if cls in ROUNDING | {"binary", "ternary"}:
      kw["use_stochastic_rounding"] = True
    spec = {"cls": cls, "kw": kw, "shape": [4, 4]}
    ops = []
    sub = 0
    for ph in (1, 0):
      ops.append({"k": "PHASE", "p": ph})
      for mode in modes:
        ops.append({"k": "RNG", "mode": mode})
        for t in tensors:
          sub += 1
          ops.append({"k": "CALL", "q": 0, "t": t, "sub": sub})
    ops.append({"k": "PHASE", "p": 1})
    for t in tensors[:4]:
      ops.append({"k": "SWEEP", "q": 0, "K": 64, "t": t})
    out.append({"label": "directed:" + label, "seed": 1,
                "world": {"quantizers": [spec]}, "ops": ops})
  return out


def simplify(scn):
  qs = scn["world"]["quantizers"]
  for i, s in enumerate(qs):
    for key in sorted(s["kw"]):
      if key == "use_stochastic_rounding":
        continue
      c = json.loads(json.dumps(scn))
      del c["world"]["quantizers"][i]["kw"][key]
      yield c
  for i, op in enumerate(scn["ops"]):
    if op["k"] in ("CALL", "SWEEP") and op["t"]["kind"] != "gauss":
      c = json.loads(json.dumps(scn))
      c["ops"][i]["t"] = {"kind": "gauss", "seed": op["t"]["seed"], "mag": 1.0}
      yield c


def bucket(scn):
  return [(s["cls"], sorted(s["kw"])) for s in scn["world"]["quantizers"]]
