"""Supported configuration lattice of the qkeras quantizers (plain data).

A spec is {"cls": name, "kw": {...json-able constructor arguments...},
"shape": [...]}: the tensors a quantizer is called with in one world all have
that shape, so that scale_axis / elements_per_scale stay admissible.

Configurations that qkeras documents or asserts as unsupported are not
generated (DESIGN 3.5 "supported lattice"):
  * elements_per_scale / min/max_po2_exponent only with alpha='auto_po2'
    (quantized_bits asserts it);
  * post_training_scale only with an 'auto*' alpha (constructor raises);
  * ternary: threshold only with a non-auto alpha, stochastic rounding only
    with an auto alpha (asserted in __call__);
  * stochastic_ternary in training needs an auto alpha (asserted);
  * negative_slope must be a power of two (asserted);
  * channels_last only.
"""

ALL_CLASSES = [
    "quantized_linear", "quantized_bits", "bernoulli", "ternary",
    "stochastic_ternary", "binary", "stochastic_binary", "quantized_relu",
    "quantized_ulaw", "quantized_tanh", "quantized_sigmoid", "quantized_po2",
    "quantized_relu_po2", "quantized_hswish",
]

SHAPES = [[6], [4, 3], [2, 4], [3, 2, 4], [2, 2, 3, 4], [1, 2, 2, 2], [8], [4, 6],
          [2, 3, 6]]


def pick_shape(rng, need_axis_div=None):
  return list(rng.pick(SHAPES))


def _axis_opts(rng, shape, allow_list=True):
  r = len(shape)
  opts = [None]
  if r >= 2:
    opts += list(range(r))
    if allow_list and r >= 3:
      opts.append([r - 2, r - 1])
      opts.append([0, r - 1])
  return rng.pick(opts)


def _eps_for(rng, shape, scale_axis):
  """elements_per_scale admissible for shape/scale_axis (or None)."""
  if scale_axis is None:
    return None
  if isinstance(scale_axis, int):
    d = shape[scale_axis]
    cands = [e for e in (1, 2, 3, 4) if d % e == 0 and e <= d]
    return rng.pick(cands) if cands else None
  per = []
  for a in scale_axis:
    d = shape[a]
    cands = [e for e in (1, 2, 3) if d % e == 0]
    per.append(rng.pick(cands))
  if rng.chance(0.5) and all(shape[a] % per[0] == 0 for a in scale_axis):
    return per[0]
  return per


QN = [1.0, 1.0, 0.0, 0.5, 0.25, 0.75]


def gen_spec(rng, cls, shape=None, focus=None):
  """Random spec of class cls.  focus in {None,'c04','c05','c07','c08','c09'}
  biases the options toward what the property is about."""
  shape = list(shape) if shape is not None else pick_shape(rng)
  kw = {}
  P = rng.chance
  if cls == "quantized_bits" or cls == "quantized_hswish":
    hs = cls == "quantized_hswish"
    kw["bits"] = rng.pick([2, 3, 4, 4, 5, 6, 8] + ([] if hs else [1]))
    kn = True if hs else (not P(0.2))
    if not hs:
      kw["keep_negative"] = kn
    ub = kw["bits"] - (1 if kn else 0)
    kw["integer"] = rng.pick([0, 0, 1, 2, 3][:max(1, min(5, ub + 2))])
    kw["symmetric"] = rng.pick([0, 1])
    if focus == "c05":
      alpha = rng.pick(["auto", "auto_po2", "auto_po2"])
    elif hs:
      alpha = rng.pick([None, None, 1.0, 0.5, 2.0])
    else:
      alpha = rng.pick([None, None, 1.0, 0.5, 2.0, "auto", "auto_po2",
                        "auto_po2"])
    if alpha is not None:
      kw["alpha"] = alpha
    if isinstance(alpha, str):
      if not hs:
        kw["keep_negative"] = True
      if kw["bits"] < 2:
        kw["bits"] = 2
      if P(0.5):
        kw["scale_axis"] = _axis_opts(rng, shape)
      if alpha == "auto_po2" and not hs:
        if kw.get("scale_axis") is not None and P(0.5):
          e = _eps_for(rng, shape, kw["scale_axis"])
          if e is not None:
            kw["elements_per_scale"] = e
        if P(0.3):
          kw["min_po2_exponent"] = rng.pick([-4, -3, -2, -1, 0])
        if P(0.3):
          kw["max_po2_exponent"] = rng.pick([0, 1, 2, 3, 4])
          if "min_po2_exponent" in kw:
            kw["max_po2_exponent"] = max(kw["max_po2_exponent"],
                                         kw["min_po2_exponent"])
    if P(0.3 if focus != "c08" else 0.9) and not isinstance(alpha, str):
      kw["use_stochastic_rounding"] = True
    if P(0.4):
      kw["qnoise_factor"] = rng.pick(QN)
    if P(0.2):
      kw["use_ste"] = False
    if hs:
      if P(0.5):
        kw["relu_shift"] = rng.pick([1, 2, 3, 4])
      if P(0.5):
        kw["relu_upper_bound"] = rng.pick([2, 4, 6, 8])
  elif cls == "quantized_linear":
    kw["bits"] = rng.pick([1, 2, 3, 4, 4, 5, 6, 8])
    kn = not P(0.2)
    kw["keep_negative"] = kn
    kw["integer"] = rng.pick([0, 0, 1, 2, 3])
    kw["symmetric"] = rng.pick([0, 1])
    if focus == "c05":
      alpha = rng.pick(["auto", "auto_po2"])
    else:
      alpha = rng.pick([None, None, 1.0, 0.5, 2.0, "auto", "auto_po2"])
    if alpha is not None:
      kw["alpha"] = alpha
    if isinstance(alpha, str) and P(0.5):
      kw["scale_axis"] = _axis_opts(rng, shape, allow_list=False)
    if P(0.3 if focus != "c08" else 0.9):
      kw["use_stochastic_rounding"] = True
    if P(0.4):
      kw["qnoise_factor"] = rng.pick(QN)
  elif cls == "bernoulli":
    a = rng.pick([None, 1.0, 2.0, "auto", "auto_po2"])
    if a is not None:
      kw["alpha"] = a
    if P(0.5):
      kw["temperature"] = rng.pick([1.0, 2.0, 8.0])
    if P(0.5):
      kw["use_real_sigmoid"] = False
  elif cls == "ternary":
    a = rng.pick([None, 1.0, 0.5, 2.0, "auto", "auto_po2", "auto", "auto_po2"])
    if a is not None:
      kw["alpha"] = a
    if isinstance(a, str):
      if P(0.3 if focus != "c08" else 0.9):
        kw["use_stochastic_rounding"] = True
    else:
      t = rng.pick([None, 0.1, 0.33, 0.5])
      if t is not None:
        kw["threshold"] = t
    if P(0.3):
      kw["number_of_unrolls"] = rng.pick([1, 2, 3, 8])
  elif cls == "stochastic_ternary":
    a = rng.pick(["auto", "auto_po2"])
    kw["alpha"] = a
    if P(0.5):
      kw["temperature"] = rng.pick([1.0, 2.0, 6.0])
    if P(0.5):
      kw["use_real_sigmoid"] = False
    if P(0.3):
      kw["number_of_unrolls"] = rng.pick([1, 2, 3, 8])
  elif cls == "binary":
    if P(0.3):
      kw["use_01"] = True
    a = rng.pick([None, 1.0, 0.5, 2.0, "auto", "auto_po2", "auto", "auto_po2"])
    if a is not None:
      kw["alpha"] = a
    if P(0.25 if focus != "c08" else 0.9):
      kw["use_stochastic_rounding"] = True
    if isinstance(a, str) and len(shape) >= 2:
      # scale_axis / elements_per_scale go through _get_scale_mean, which
      # needs rank >= 2
      if P(0.5):
        kw["scale_axis"] = _axis_opts(rng, shape)
        if kw["scale_axis"] is not None and P(0.5):
          e = _eps_for(rng, shape, kw["scale_axis"])
          if e is not None:
            kw["elements_per_scale"] = e
    if a == "auto_po2":
      if P(0.3):
        kw["min_po2_exponent"] = rng.pick([-4, -3, -2, -1, 0])
      if P(0.3):
        kw["max_po2_exponent"] = rng.pick([0, 1, 2, 3, 4])
        if "min_po2_exponent" in kw:
          kw["max_po2_exponent"] = max(kw["max_po2_exponent"],
                                       kw["min_po2_exponent"])
  elif cls == "stochastic_binary":
    a = rng.pick([None, 1.0, 2.0, "auto", "auto_po2"])
    if a is not None:
      kw["alpha"] = a
    if P(0.5):
      kw["temperature"] = rng.pick([1.0, 2.0, 8.0])
    if P(0.5):
      kw["use_real_sigmoid"] = False
  elif cls == "quantized_relu":
    kw["bits"] = rng.pick([2, 3, 4, 4, 5, 6, 8])
    kw["integer"] = rng.pick([0, 0, 1, 2, 3])
    if P(0.2):
      kw["use_sigmoid"] = 1
    if P(0.3):
      kw["negative_slope"] = rng.pick([0.125, 0.25, 0.5, 0.0625])
    if P(0.3 if focus != "c08" else 0.9):
      kw["use_stochastic_rounding"] = True
    if P(0.3):
      kw["is_quantized_clip"] = False
      if P(0.7):
        kw["relu_upper_bound"] = rng.pick([1.0, 2.0, 6.0, 0.75])
    elif P(0.15):
      kw["relu_upper_bound"] = rng.pick([1.0, 2.0, 6.0])
    if P(0.4):
      kw["qnoise_factor"] = rng.pick(QN)
    if P(0.2):
      kw["use_ste"] = False
  elif cls == "quantized_ulaw":
    kw["bits"] = rng.pick([2, 3, 4, 6, 8])
    kw["integer"] = rng.pick([0, 0, 1, 2])
    kw["symmetric"] = rng.pick([0, 1])
    if P(0.5):
      kw["u"] = rng.pick([15.0, 100.0, 255.0])
  elif cls == "quantized_tanh":
    kw["bits"] = rng.pick([2, 3, 4, 6, 8])
    if P(0.3 if focus != "c08" else 0.9):
      kw["use_stochastic_rounding"] = True
    if P(0.4):
      kw["symmetric"] = True
    if P(0.4):
      kw["use_real_tanh"] = True
  elif cls == "quantized_sigmoid":
    kw["bits"] = rng.pick([2, 3, 4, 6, 8])
    if P(0.3 if focus != "c08" else 0.9):
      kw["use_stochastic_rounding"] = True
    if P(0.4):
      kw["symmetric"] = True
    if P(0.4):
      kw["use_real_sigmoid"] = True
  elif cls in ("quantized_po2", "quantized_relu_po2"):
    kw["bits"] = rng.pick([2, 3, 4, 4, 5, 6, 8])
    mv = rng.pick([None, None, 1.0, 2.0, 4.0, 0.5, 8.0, 3.0])
    if mv is not None:
      kw["max_value"] = mv
    if cls == "quantized_relu_po2" and P(0.3):
      kw["negative_slope"] = rng.pick([0.125, 0.25, 0.5])
    if P(0.3 if focus != "c08" else 0.9):
      kw["use_stochastic_rounding"] = True
    if P(0.2):
      kw["quadratic_approximation"] = True
    if P(0.25) and not kw.get("use_stochastic_rounding"):
      kw["log2_rounding"] = "floor"
    if P(0.4):
      kw["qnoise_factor"] = rng.pick(QN)
    if P(0.2):
      kw["use_ste"] = False
  else:
    raise ValueError(cls)
  if cls in ("quantized_linear", "quantized_bits", "quantized_relu",
             "quantized_po2", "quantized_relu_po2", "quantized_hswish") and \
      focus in ("c07", "c09"):
    # variable-backed knob requested at construction (built on first call)
    if P(0.12):
      kw["use_variables"] = True
    if P(0.08):
      kw["var_name"] = "qv"
  return {"cls": cls, "kw": kw, "shape": shape}


# ---------------------------------------------------------------------------
# Every constructor option that can change the quantization function, with one
# non-default value each: the directed part of the C09 sweep restarts a
# quantizer configured with exactly that option (and, for pairs, two options).
OPTION_PROBES = {
    "quantized_linear": [
        ("use_variables", True, {"qnoise_factor": 0.5}), ("var_name", "qv"),
        ("bits", 4), ("integer", 2), ("symmetric", 0), ("keep_negative", False),
        ("alpha", "auto"), ("alpha", "auto_po2"), ("alpha", 0.5),
        ("use_stochastic_rounding", True), ("qnoise_factor", 0.5),
        ("scale_axis", 0, {"alpha": "auto"}),
    ],
    "quantized_bits": [
        ("use_variables", True, {"qnoise_factor": 0.5}), ("var_name", "qv"),
        ("bits", 4), ("integer", 2), ("symmetric", 1), ("keep_negative", False),
        ("alpha", "auto"), ("alpha", "auto_po2"), ("alpha", 0.5),
        ("use_stochastic_rounding", True), ("qnoise_factor", 0.5),
        ("use_ste", False, {"qnoise_factor": 0.5}),
        ("scale_axis", 0, {"alpha": "auto"}),
        ("scale_axis", 0, {"alpha": "auto_po2"}),
        ("elements_per_scale", 2, {"alpha": "auto_po2", "scale_axis": 1}),
        ("min_po2_exponent", 1, {"alpha": "auto_po2"}),
        ("max_po2_exponent", -2, {"alpha": "auto_po2"}),
        # falsy-but-meaningful values (a truthiness test would lose them)
        ("min_po2_exponent", 0, {"alpha": "auto_po2"}),
        ("max_po2_exponent", 0, {"alpha": "auto_po2"}),
        ("qnoise_factor", 0.0),
        ("scale_axis", 0, {"alpha": "auto_po2", "elements_per_scale": 2}),
        ("post_training_scale", [0.5, 0.25, 1.0, 2.0], {"alpha": "auto_po2"}),
    ],
    "bernoulli": [
        ("alpha", 2.0), ("alpha", "auto"), ("alpha", "auto_po2"),
        ("temperature", 1.0), ("use_real_sigmoid", False),
    ],
    "ternary": [
        ("alpha", 2.0), ("alpha", "auto"), ("alpha", "auto_po2"),
        ("threshold", 0.6), ("threshold", 0.0),
        ("use_stochastic_rounding", True, {"alpha": "auto"}),
        ("number_of_unrolls", 1, {"alpha": "auto"}),
    ],
    "stochastic_ternary": [
        ("alpha", "auto"), ("alpha", "auto_po2"),
        ("temperature", 1.0, {"alpha": "auto"}),
        ("use_real_sigmoid", False, {"alpha": "auto"}),
        ("number_of_unrolls", 1, {"alpha": "auto"}),
        ("threshold", 0.6, {"alpha": 1.0}),
    ],
    "binary": [
        ("use_01", True), ("alpha", 2.0), ("alpha", "auto"),
        ("alpha", "auto_po2"), ("use_stochastic_rounding", True),
        ("scale_axis", 0, {"alpha": "auto"}),
        ("elements_per_scale", 2, {"alpha": "auto", "scale_axis": 1}),
        ("min_po2_exponent", 1, {"alpha": "auto_po2"}),
        ("max_po2_exponent", -3, {"alpha": "auto_po2"}),
        ("min_po2_exponent", 0, {"alpha": "auto_po2"}),
        ("max_po2_exponent", 0, {"alpha": "auto_po2"}),
    ],
    "stochastic_binary": [
        ("alpha", 2.0), ("alpha", "auto"), ("alpha", "auto_po2"),
        ("temperature", 1.0), ("use_real_sigmoid", False),
    ],
    "quantized_relu": [
        ("use_variables", True, {"qnoise_factor": 0.5}), ("var_name", "qv"),
        ("bits", 4), ("integer", 2), ("use_sigmoid", 1),
        ("negative_slope", 0.25), ("use_stochastic_rounding", True),
        ("relu_upper_bound", 0.75, {"is_quantized_clip": False}),
        ("is_quantized_clip", False, {"bits": 4, "integer": 1}),
        ("qnoise_factor", 0.5), ("qnoise_factor", 0.0),
        ("relu_upper_bound", 0.75, {"is_quantized_clip": False,
                                    "negative_slope": 0.25}),
        ("use_ste", False, {"qnoise_factor": 0.5}),
    ],
    "quantized_ulaw": [
        ("bits", 4), ("integer", 1), ("symmetric", 1), ("u", 15.0),
    ],
    "quantized_tanh": [
        ("bits", 4), ("use_stochastic_rounding", True), ("symmetric", True),
        ("use_real_tanh", True),
    ],
    "quantized_sigmoid": [
        ("bits", 4), ("symmetric", True), ("use_real_sigmoid", True),
        ("use_stochastic_rounding", True),
    ],
    "quantized_po2": [
        ("use_variables", True, {"qnoise_factor": 0.5}), ("var_name", "qv"),
        ("bits", 4), ("max_value", 2.0), ("max_value", 0.5),
        ("max_value", 4.0, {"bits": 2}), ("max_value", 1.0, {"bits": 3}),
        ("use_stochastic_rounding", True), ("quadratic_approximation", True),
        ("log2_rounding", "floor"), ("qnoise_factor", 0.5),
        ("qnoise_factor", 0.0),
        ("use_ste", False, {"qnoise_factor": 0.5}),
    ],
    "quantized_relu_po2": [
        ("use_variables", True, {"qnoise_factor": 0.5}), ("var_name", "qv"),
        ("bits", 4), ("max_value", 2.0), ("negative_slope", 0.25),
        ("max_value", 4.0, {"bits": 1}), ("max_value", 0.5, {"bits": 2}),
        ("max_value", 3.0, {"bits": 2, "quadratic_approximation": True}),
        ("use_stochastic_rounding", True), ("quadratic_approximation", True),
        ("log2_rounding", "floor"), ("qnoise_factor", 0.5),
        ("use_ste", False, {"qnoise_factor": 0.5}),
    ],
    "quantized_hswish": [
        ("use_variables", True, {"qnoise_factor": 0.5}), ("var_name", "qv"),
        ("bits", 4), ("integer", 2), ("symmetric", 1), ("alpha", 0.5),
        ("use_stochastic_rounding", True), ("qnoise_factor", 0.5),
        ("relu_shift", 2), ("relu_upper_bound", 4),
        ("use_ste", False, {"qnoise_factor": 0.5}),
    ],
}


def option_probe_specs():
  """[(label, spec)] deterministic list: one spec per (class, option probe)
  plus the all-defaults spec of each class."""
  out = []
  for cls in ALL_CLASSES:
    base = {}
    if cls == "stochastic_ternary":
      base = {"alpha": "auto"}
    out.append(("%s:defaults" % cls,
                {"cls": cls, "kw": dict(base), "shape": [4, 4]}))
    for probe in OPTION_PROBES[cls]:
      key, val = probe[0], probe[1]
      extra = probe[2] if len(probe) > 2 else {}
      kw = dict(base)
      kw.update(extra)
      kw[key] = val
      if cls == "stochastic_ternary" and key == "threshold":
        kw = {"alpha": 1.0, "threshold": val}
      out.append(("%s:%s=%r" % (cls, key, val),
                  {"cls": cls, "kw": kw, "shape": [4, 4]}))
  # a post-training scale given as a python list / a plain number
  out.append(("quantized_bits:post_training_scale=list(raw)",
              {"cls": "quantized_bits", "pts_raw": True, "shape": [4, 4],
               "kw": {"alpha": "auto_po2",
                      "post_training_scale": [0.5, 0.25, 1.0, 2.0]}}))
  out.append(("quantized_bits:post_training_scale=float(raw)",
              {"cls": "quantized_bits", "pts_raw": True, "shape": [4, 4],
               "kw": {"alpha": "auto_po2", "post_training_scale": 0.5}}))
  return out
