"""C15 - batch-norm folding at inference, at arbitrary instants of a training
history (engine T).

The folded layers are the one place in qkeras with a timer: `_iteration`
counts training calls and `ema_freeze_delay` switches the statistics used.
The property is about inference, but it must hold before the first step
(_iteration = -1), in the pre-freeze window, exactly at the boundary, long
after, and after a checkpoint load that jumps the clock; and inference must
not advance the clock or the moving statistics.

Oracle at every INFER_PROBE: the model's inference output equals a stock
Keras model in which every folded layer is replaced by Conv2D /
DepthwiseConv2D holding [q(kernel*gamma/sqrt(var+eps)),
q((bias-mean)*gamma/sqrt(var+eps)+beta)] computed by the harness from the
CURRENT parameters (q = identity without quantizers, which makes it conv
followed by batch normalisation); no variable changes.  UNFOLD and CONVERT
preserve inference predictions.
"""
import json

import numpy as np

from . import engine_m as M
from .core import Ctx, HarnessError, StopRun, guard
from .seams import fresh_session, set_phase, tf_setup

FOLDED = ("QConv2DBatchnorm", "QDepthwiseConv2DBatchnorm")
IN_SHAPE = (6, 6, 2)


def gen_q(rng, kind):
  """Quantizer description for the folded kernel / bias (or None)."""
  r = rng.random()
  if r < 0.3:
    return None
  if kind == "k":
    return rng.pick([
        {"cls": "quantized_bits", "kw": {"bits": 4, "integer": 0,
                                         "symmetric": 1, "alpha": 1.0}},
        {"cls": "quantized_bits", "kw": {"bits": 8, "integer": 2,
                                         "symmetric": 1, "alpha": 1.0}},
        {"cls": "quantized_bits", "kw": {"bits": 4, "integer": 0,
                                         "symmetric": 1}},   # -> auto_po2
        {"cls": "quantized_bits", "kw": {"bits": 6, "integer": 1,
                                         "alpha": "auto"}},
        {"cls": "quantized_po2", "kw": {"bits": 4}},
        {"cls": "binary", "kw": {"alpha": 1.0}},
        {"cls": "ternary", "kw": {"alpha": "auto"}},
        {"str": "quantized_bits(6,1,1,alpha=1.0)"},
    ])
  return rng.pick([
      {"cls": "quantized_bits", "kw": {"bits": 8, "integer": 3}},
      {"cls": "quantized_bits", "kw": {"bits": 4, "integer": 1}},
      {"cls": "quantized_po2", "kw": {"bits": 5}},
      {"str": "quantized_bits(10,4,1)"},
  ])


def gen_folded(rng):
  t = rng.pick(["QConv2DBatchnorm", "QDepthwiseConv2DBatchnorm"])
  l = {"t": t, "kernel": rng.pick([1, 2, 3]), "strides": rng.pick([1, 1, 2]),
       "padding": rng.pick(["valid", "same"]),
       "use_bias": rng.chance(0.6), "center": not rng.chance(0.25),
       "scale": not rng.chance(0.25),
       "ema_freeze_delay": rng.pick([None, 0, 1, 3]),
       "folding_mode": rng.pick(["ema_stats_folding", "batch_stats_folding"]),
       "bq": gen_q(rng, "b")}
  if rng.chance(0.25) and l["strides"] == 1:
    l["dilation"] = 2
  if t == "QConv2DBatchnorm":
    l["filters"] = rng.pick([2, 3])
    l["kq"] = gen_q(rng, "k")
  else:
    l["dq"] = gen_q(rng, "k")
    if rng.chance(0.4):
      l["depth_multiplier"] = rng.pick([2, 3])
  return l


def build_layer(l, name):
  import qkeras as qk
  q = M.make_q
  if l["t"] == "QActivation":
    return qk.QActivation(q(l["aq"]), name=name)
  kw = dict(strides=l.get("strides", 1), padding=l["padding"],
            use_bias=l["use_bias"], center=l.get("center", True),
            scale=l.get("scale", True),
            ema_freeze_delay=l.get("ema_freeze_delay"),
            folding_mode=l.get("folding_mode", "ema_stats_folding"),
            dilation_rate=l.get("dilation", 1), name=name)
  if l.get("epsilon") is not None:
    kw["epsilon"] = l["epsilon"]
  if l.get("momentum") is not None:
    kw["momentum"] = l["momentum"]
  if l.get("act") is not None:
    kw["activation"] = q(l["act"])
  if l["t"] == "QConv2DBatchnorm":
    return qk.QConv2DBatchnorm(l["filters"], l["kernel"],
                               kernel_quantizer=q(l.get("kq")),
                               bias_quantizer=q(l.get("bq")), **kw)
  if l["t"] == "QDepthwiseConv2DBatchnorm":
    return qk.QDepthwiseConv2DBatchnorm(l["kernel"],
                                        depth_multiplier=l.get(
                                            "depth_multiplier", 1),
                                        depthwise_quantizer=q(l.get("dq")),
                                        bias_quantizer=q(l.get("bq")), **kw)
  if l["t"] == "QActivation":
    return qk.QActivation(q(l["aq"]), name=name)
  raise HarnessError(l["t"])


def build_direct(wspec):
  tf = tf_setup()
  import tf_keras as keras
  inp = keras.Input(IN_SHAPE, name="in")
  x = inp
  for i, l in enumerate(wspec["layers"]):
    x = build_layer(l, "f%d" % i)(x)
  return keras.Model(inp, x, name="m")


def build_source(wspec):
  """Stock conv + BatchNormalization model to be converted."""
  tf = tf_setup()
  import tf_keras as keras
  L = keras.layers
  inp = keras.Input(IN_SHAPE, name="in")

  def block(x, l, i, tag=""):
    if l["t"] == "QConv2DBatchnorm":
      x = L.Conv2D(l["filters"], l["kernel"], strides=l.get("strides", 1),
                   padding=l["padding"], use_bias=l["use_bias"],
                   dilation_rate=l.get("dilation", 1),
                   activation=l.get("conv_act"),
                   name="c%d%s" % (i, tag))(x)
    else:
      x = L.DepthwiseConv2D(l["kernel"], strides=l.get("strides", 1),
                            padding=l["padding"], use_bias=l["use_bias"],
                            dilation_rate=l.get("dilation", 1),
                            depth_multiplier=l.get("depth_multiplier", 1),
                            activation=l.get("conv_act"),
                            name="c%d%s" % (i, tag))(x)
    x = L.BatchNormalization(center=l.get("center", True),
                             scale=l.get("scale", True),
                             name="bn%d%s" % (i, tag))(x)
    return x
  x = inp
  for i, l in enumerate(wspec["layers"]):
    if l["t"] in FOLDED:
      if wspec.get("skip") and i == 0:
        # pre-activation skip: the conv output feeds its batch-norm AND an
        # Add; such a conv has two consumers and must not be folded
        if l["t"] == "QConv2DBatchnorm":
          c = L.Conv2D(l["filters"], l["kernel"], padding="same",
                       use_bias=l["use_bias"], name="c%d" % i)(x)
        else:
          c = L.DepthwiseConv2D(l["kernel"], padding="same",
                                use_bias=l["use_bias"], name="c%d" % i)(x)
        y = L.BatchNormalization(center=l.get("center", True),
                                 scale=l.get("scale", True),
                                 name="bn%d" % i)(c)
        y = L.Activation("relu", name="act%d" % i)(y)
        x = L.Add(name="skip%d" % i)([y, c])
        continue
      x = block(x, l, i)
      if wspec.get("oplambda"):
        # op layers with a DIFFERENT constant after every block
        x = x * (1.5 + i)
        x = x + (0.25 * (i + 1))
      if wspec.get("relu_between"):
        x = L.Activation("relu", name="act%d" % i)(x)
  if wspec.get("branch"):
    l = wspec["layers"][0]
    same = dict(l, padding="same", strides=1)
    same.pop("dilation", None)
    same.pop("conv_act", None)
    a = block(inp, same, 90, "a")
    b = L.Conv2D(a.shape[-1], 1, padding="same", name="c91b")(inp)
    y = L.Add(name="add")([a, b])
    y = L.Flatten(name="fl_b")(y)
    x = L.Flatten(name="fl_a")(x)
    x = L.Concatenate(name="cat")([x, y])
  return keras.Model(inp, x, name="src")


def seed_layer(layer, g, stats="normal"):
  """Trained-like parameters for one folded layer (or any layer)."""
  ws = []
  for v in layer.weights:
    nm = v.name.split("/")[-1].split(":")[0]
    sh = tuple(v.shape)
    if nm == "moving_variance":
      a = g.uniform(0.3, 2.0, sh)
      if stats == "tiny_var":
        a = g.uniform(1e-6, 1e-4, sh)
    elif nm == "gamma":
      a = g.uniform(0.5, 1.5, sh)
      if stats == "neg_gamma":
        a = -a
      elif stats == "zero_gamma":
        a[..., 0] = 0.0
    elif nm == "moving_mean":
      a = g.standard_normal(sh) * (100.0 if stats == "big_mean" else 0.5)
    elif nm == "iteration":
      a = np.asarray(v.numpy())
    else:
      a = g.standard_normal(sh) * 0.5
    ws.append(np.asarray(a, dtype=v.dtype.as_numpy_dtype))
  layer.set_weights(ws)


EXPECT_EPS = {}


def folded_weights(layer):
  """[q(folded kernel), q(folded bias)] from the CURRENT parameters, plus a
  flag telling whether the codes are stable under a 2e-6 relative change of
  the folded values (else a one-ulp difference in the folding expression
  could flip a code and the probe is not judged)."""
  tf = tf_setup()
  bn = layer.batchnorm
  dw = type(layer).__name__ == "QDepthwiseConv2DBatchnorm"
  kernel = (layer.depthwise_kernel if dw else layer.kernel).numpy()
  bias = layer.bias.numpy() if layer.use_bias else np.float32(0)
  var = bn.moving_variance.numpy()
  mean = bn.moving_mean.numpy()
  # the epsilon the world was BUILT with (never the layer's own bookkeeping)
  inv = (1.0 / np.sqrt(var.astype(np.float64) + np.float32(
      EXPECT_EPS.get(layer.name, 1e-3))))
  if bn.gamma is not None:
    inv = inv * bn.gamma.numpy()
  beta = bn.beta.numpy() if bn.beta is not None else 0.0
  fb = (inv * (np.float64(bias) - mean) + beta).astype(np.float32)
  if dw:
    invk = inv.reshape(kernel.shape[2], kernel.shape[3])
  else:
    invk = inv
  fk = (invk * kernel).astype(np.float32)
  kq = layer.depthwise_quantizer_internal if dw else \
      layer.kernel_quantizer_internal
  bq = layer.bias_quantizer_internal
  stable = True

  def ap(q, a):
    nonlocal stable
    if q is None:
      return a
    y = q(tf.constant(a)).numpy()
    for f in (1 + 2e-6, 1 - 2e-6):
      y2 = q(tf.constant((a.astype(np.float64) * f).astype(np.float32))).numpy()
      if not np.allclose(y, y2, rtol=1e-5, atol=1e-7):
        stable = False
    # restore the quantizer's last-call state (scale) for the real tensor
    return q(tf.constant(a)).numpy()
  return [ap(kq, fk), ap(bq, fb)], stable


def reference_model(model):
  """Stock Keras model: folded layers -> Conv2D/DepthwiseConv2D with the
  harness-computed folded+quantized weights; everything else cloned."""
  tf = tf_setup()
  import tf_keras as keras
  L = keras.layers
  stable = [True]
  repl = {}

  def fn(layer):
    cls = type(layer).__name__
    if cls in FOLDED:
      (k, b), st = folded_weights(layer)
      stable[0] = stable[0] and st
      act = layer.activation
      if act is not None and getattr(act, "__name__", "") == "linear":
        act = None
      common = dict(strides=layer.strides, padding=layer.padding,
                    dilation_rate=layer.dilation_rate, use_bias=True,
                    activation=act, name=layer.name)
      if cls == "QConv2DBatchnorm":
        new = L.Conv2D(layer.filters, layer.kernel_size, **common)
      else:
        new = L.DepthwiseConv2D(layer.kernel_size,
                                depth_multiplier=layer.depth_multiplier,
                                **common)
      repl[layer.name] = [k, b]
      return new
    return layer.__class__.from_config(layer.get_config())
  import qkeras.utils as qu
  co = {}
  qu._add_supported_quantized_objects(co)
  with keras.utils.custom_object_scope(co):
    ref = keras.models.clone_model(model, clone_function=fn)
  for l in ref.layers:
    if l.name in repl:
      l.set_weights(repl[l.name])
    else:
      src = model.get_layer(l.name)
      if src.get_weights():
        l.set_weights(src.get_weights())
  return ref, stable[0]


def all_vars(model):
  out = []
  for l in model.layers:
    for v in l.weights:
      out.append((v.name, np.asarray(v.numpy())))
    if hasattr(l, "_iteration"):
      out.append((l.name + "/_iteration", np.asarray(l._iteration.numpy())))
  return out


def same_vars(a, b):
  if len(a) != len(b):
    return None
  for (n1, x), (n2, y) in zip(a, b):
    if n1 != n2 or x.shape != y.shape or not np.array_equal(x, y,
                                                            equal_nan=True):
      return n1
  return ""


class World:
  def __init__(self, ctx, scn):
    self.ctx = ctx
    self.spec = scn["world"]
    self.scratch = M.Scratch()
    g = np.random.Generator(np.random.PCG64(int(self.spec.get("wseed", 0))))
    if self.spec.get("convert"):
      self.model = self.convert(g)
    else:
      ok, self.model = guard(ctx, "build-folded-model", build_direct, self.spec)
      if not ok:
        raise StopRun()
      for l in self.model.layers:
        if l.weights:
          seed_layer(l, g)
    EXPECT_EPS.clear()
    if not self.spec.get("convert"):
      for i, l in enumerate(self.spec["layers"]):
        if l.get("epsilon") is not None:
          EXPECT_EPS["f%d" % i] = float(l["epsilon"])
    self.clock = {l.name: -1 for l in self.model.layers
                  if type(l).__name__ in FOLDED}
    self.check_clock("after-build")

  def folded(self):
    return [l for l in self.model.layers if type(l).__name__ in FOLDED]

  def check_clock(self, when):
    for l in self.folded():
      got = int(l._iteration.numpy())
      if got != self.clock[l.name]:
        self.ctx.violation("%s|step-clock-wrong:%s" % (
            type(l).__name__, "after-inference" if when == "infer" else when),
            "%s._iteration is %d, %d training calls were made (%s)" % (
                l.name, got, self.clock[l.name], when))

  def convert(self, g):
    """Stock conv+BN model -> model_quantize(enable_bn_folding=True), with
    the parameters copied by role."""
    tf = tf_setup()
    from qkeras import utils as qu
    ctx = self.ctx
    ok, src = guard(ctx, "build-source", build_source, self.spec)
    if not ok:
      raise StopRun()
    for l in src.layers:
      if l.weights:
        seed_layer(l, g)
    qcfg = {
        "QConv2DBatchnorm": {"kernel_quantizer":
                             "quantized_bits(16,5,1,alpha=1.0)",
                             "bias_quantizer": "quantized_bits(16,5,1)"},
        "QDepthwiseConv2DBatchnorm": {
            "depthwise_quantizer": "quantized_bits(16,5,1,alpha=1.0)",
            "bias_quantizer": "quantized_bits(16,5,1)"},
        "QConv2D": {"kernel_quantizer": "quantized_bits(16,5,1,alpha=1.0)",
                    "bias_quantizer": "quantized_bits(16,5,1)"},
        "QDepthwiseConv2D": {
            "depthwise_quantizer": "quantized_bits(16,5,1,alpha=1.0)",
            "bias_quantizer": "quantized_bits(16,5,1)"},
    }
    # a conv with its own relu: model_quantize would turn it into the 8-bit,
    # 0-integer-bit quantized_relu(activation_bits); give those layers (by
    # name) a wide activation quantizer so that the comparison with the
    # source stays about the structure
    for i, l in enumerate(self.spec["layers"]):
      if l.get("conv_act") and not (self.spec.get("skip") and i == 0):
        qcfg["c%d" % i] = {
            "kernel_quantizer": "quantized_bits(16,5,1,alpha=1.0)",
            "depthwise_quantizer": "quantized_bits(16,5,1,alpha=1.0)",
            "bias_quantizer": "quantized_bits(16,5,1)",
            "activation_quantizer": "quantized_relu(20,8)"}
    fm = self.spec.get("convert_folding_mode")
    if fm:
      for k in ("QConv2DBatchnorm", "QDepthwiseConv2DBatchnorm"):
        qcfg[k]["folding_mode"] = fm
    ok, qm = guard(ctx, "model_quantize(enable_bn_folding)", qu.model_quantize,
                   src, qcfg, 8, None, False, False, True, always=True)
    ctx.fault("convert_to_folded")
    if not ok:
      raise StopRun()
    # which BN followed which conv in the source
    follower = {}
    for l in src.layers:
      if isinstance(l, tf.keras.layers.BatchNormalization) or \
          type(l).__name__ == "BatchNormalization":
        inbound = l.input._keras_history.layer
        follower[inbound.name] = l
    nfold = 0
    for l in qm.layers:
      s = None
      try:
        s = src.get_layer(l.name)
      except ValueError:
        pass
      if type(l).__name__ in FOLDED:
        nfold += 1
        bn = follower.get(l.name)
        if bn is None or s is None:
          ctx.violation("convert|folded-layer-without-source-bn",
                        "layer %s was folded but no BN followed it" % l.name)
          raise StopRun()
        sw = {v.name.split("/")[-1].split(":")[0]: w
              for v, w in zip(s.weights, s.get_weights())}
        bw = {v.name.split("/")[-1].split(":")[0]: w
              for v, w in zip(bn.weights, bn.get_weights())}
        new = []
        for v in l.weights:
          nm = v.name.split("/")[-1].split(":")[0]
          if nm in ("kernel", "depthwise_kernel"):
            new.append(sw[nm])
          elif nm == "bias":
            new.append(sw.get("bias", np.zeros(tuple(v.shape), np.float32)))
          elif nm in bw:
            new.append(bw[nm])
          elif nm == "gamma":      # source BN had scale=False
            new.append(np.ones(tuple(v.shape), np.float32))
          elif nm == "beta":       # source BN had center=False
            new.append(np.zeros(tuple(v.shape), np.float32))
          elif nm == "iteration":
            new.append(np.asarray(v.numpy()))
          else:
            raise HarnessError("unknown folded variable " + nm)
        l.set_weights(new)
      elif s is not None and s.get_weights():
        l.set_weights(s.get_weights())
    ctx.probe("converted_layers_folded", nfold)
    self.src = src
    # order of the inputs of order-sensitive merge layers
    bn_to_conv = {bn.name: conv for conv, bn in follower.items()}
    swapped = False
    for l in qm.layers:
      if type(l).__name__ not in ("Concatenate", "Subtract", "Dot"):
        continue
      ins = l.input if isinstance(l.input, list) else [l.input]
      got = [t._keras_history.layer.name for t in ins]
      sl = src.get_layer(l.name)
      sins = sl.input if isinstance(sl.input, list) else [sl.input]
      want = [bn_to_conv.get(t._keras_history.layer.name,
                             t._keras_history.layer.name) for t in sins]
      ctx.checked()
      if got != want:
        swapped = True
        ctx.violation("convert|multi-input-layer-inputs-reordered",
                      "%s %s receives %r in the converted model, %r in the "
                      "source" % (type(l).__name__, l.name, got, want))
    if swapped:
      # predictions are a permutation of the source's; the per-layer oracle
      # (built from the converted graph itself) is still evaluated
      return qm
    # structural check: converted model ~ source within the quantisation
    # error of 16-bit weights
    x = probe(5)
    ys = np.asarray(src(tf.constant(x), training=False).numpy(), np.float64)
    yq = np.asarray(qm(tf.constant(x), training=False).numpy(), np.float64)
    ctx.checked()
    tol = 0.02 * max(1.0, float(np.abs(ys).max()))
    if ys.shape != yq.shape or np.abs(ys - yq).max() > tol:
      ctx.violation("convert|predictions-differ-from-source",
                    "conv+BN model and its folded conversion differ by %g "
                    "(tolerance %g for 16-bit weights); layers %r" % (
                        float(np.abs(ys - yq).max()) if ys.shape == yq.shape
                        else -1, tol, [type(l).__name__ for l in qm.layers]))
      raise StopRun()
    return qm


def probe(seed, n=2):
  g = np.random.Generator(np.random.PCG64(int(seed)))
  return g.standard_normal((n,) + IN_SHAPE).astype(np.float32)


def breakpoint_mask(ctx, w, ref, x, r64, tol):
  """Elements of the reference output that are stable under float noise in the
  pre-activations (all of them when no activation quantizer is involved);
  None when most of the probe is unstable."""
  tf = tf_setup()
  judged = np.ones(r64.shape, dtype=bool)
  has_act_q = any(type(l).__name__ == "QActivation" or (
      type(l).__name__ in FOLDED and l.activation is not None and
      getattr(l.activation, "__name__", "") != "linear")
                  for l in w.model.layers)
  if not has_act_q:
    return judged
  # an activation quantizer behind a folded layer rounds the folded output:
  # an element whose pre-activation sits within float noise of a rounding
  # breakpoint may legitimately land on either side.  Such elements are found
  # on the REFERENCE alone (they move when the folded kernel and bias of
  # every replaced layer are scaled by 1 +- 3e-6, which scales every
  # pre-activation by that factor) and are not judged.
  names = [l.name for l in w.folded()]
  orig = {n: ref.get_layer(n).get_weights() for n in names}
  for f in (1.0 + 3e-6, 1.0 - 3e-6):
    for n in names:
      ref.get_layer(n).set_weights([(a.astype(np.float64) * f).astype(
          np.float32) for a in orig[n]])
    y2 = np.asarray(ref(tf.constant(x), training=False).numpy()).astype(
        np.float64)
    judged &= np.abs(y2 - r64) <= tol
  for n in names:
    ref.get_layer(n).set_weights(orig[n])
  if judged.mean() < 0.5:
    ctx.probe("activation_breakpoint_probe_not_judged")
    return None
  if not judged.all():
    ctx.probe("activation_breakpoint_elements_not_judged")
  return judged


def infer_probe(ctx, w, op, tag="infer"):
  tf = tf_setup()
  x = probe(op.get("xseed", 1))
  before = all_vars(w.model)
  ok, y = guard(ctx, "folded-inference", lambda: np.asarray(
      w.model(tf.constant(x), training=False).numpy()), always=True)
  if not ok:
    return
  after = all_vars(w.model)
  ctx.checked()
  ch = same_vars(before, after)
  if ch != "":
    ctx.violation("inference-changes-variable:%s" % (
        (ch or "?").split("/")[-1].split(":")[0]),
        "an inference call changed %s" % ch)
    return
  w.check_clock("infer")
  ok, res = guard(ctx, "reference-model", reference_model, w.model)
  if not ok:
    return
  ref, stable = res
  if not stable:
    ctx.probe("folded_value_near_rounding_breakpoint_not_judged")
    return
  yr = np.asarray(ref(tf.constant(x), training=False).numpy())
  ctx.checked()
  ctx.log("y", y)
  for l in w.folded():
    it = int(l._iteration.numpy())
    d = l.ema_freeze_delay
    if it == -1:
      ctx.probe("probe_before_first_step")
    elif d is not None and it == d:
      ctx.probe("iteration_equals_freeze_delay")
    elif d is not None and it == d + 1:
      ctx.probe("iteration_just_past_freeze_delay")
    elif d is not None and it < d:
      ctx.probe("probe_in_pre_freeze_window")
  y64, r64 = y.astype(np.float64), yr.astype(np.float64)
  if not np.isfinite(r64).all():
    # parameters that diverged in a real training step: the reference built
    # from them is not finite either, nothing about folding to judge
    ctx.probe("reference_not_finite_not_judged")
    return
  tol = 1e-4 * max(1e-6, float(np.abs(r64).max())) + 1e-5
  judged = breakpoint_mask(ctx, w, ref, x, r64, tol) \
      if y64.shape == r64.shape else np.ones(r64.shape, dtype=bool)
  if judged is None:
    return
  if y64.shape != r64.shape or not np.isfinite(y64).all() or \
      np.abs(y64 - r64)[judged].max() > tol:
    kinds = sorted({type(l).__name__ + ":" + l.folding_mode
                    for l in w.folded()})
    quant = any((getattr(l, "kernel_quantizer_internal", None) or
                 getattr(l, "depthwise_quantizer_internal", None) or
                 l.bias_quantizer_internal) is not None for l in w.folded())
    ctx.violation("inference-differs-from-folded-reference|%s|%s" % (
        ";".join(kinds), "quantized" if quant else "float"),
        "%s: folded model differs from conv with [q(folded kernel), q(folded "
        "bias)] by %g (tolerance %g); clocks %r delays %r" % (
            tag, float(np.abs(y64 - r64).max()) if y64.shape == r64.shape
            else -1, tol, [int(l._iteration.numpy()) for l in w.folded()],
            [l.ema_freeze_delay for l in w.folded()]))


def apply_op(ctx, w, op):
  tf = tf_setup()
  k = op["k"]
  ctx.log("op", k)
  if k == "INFER":
    infer_probe(ctx, w, op)
  elif k == "TRAIN":
    x = probe(op.get("xseed", 2), n=op.get("n", 4))
    ok, _ = guard(ctx, "folded-training-call", lambda: w.model(
        tf.constant(x), training=True), always=True)
    ctx.fault("training_step")
    if ok:
      for l in w.folded():
        w.clock[l.name] += 1
      w.check_clock("after-training-call")
  elif k == "FIT":
    # the REAL Keras training loop (optimizer, traced train_function) instead
    # of bare training calls: the step clock must advance once per batch and
    # inference afterwards must still equal the folded reference
    import tf_keras as keras
    n = int(op.get("steps", 2))
    g = np.random.Generator(np.random.PCG64(int(op.get("xseed", 0))))
    x = g.standard_normal((2 * n,) + IN_SHAPE).astype(np.float32)
    yshape = tuple(w.model.output_shape[1:])
    y = g.standard_normal((2 * n,) + yshape).astype(np.float32)
    if not getattr(w.model, "_verif_compiled", False):
      w.model.compile(optimizer=keras.optimizers.SGD(0.01), loss="mse")
      w.model._verif_compiled = True
    ok, _ = guard(ctx, "folded-model-fit", lambda: w.model.fit(
        x, y, batch_size=2, epochs=1, shuffle=False, verbose=0), always=True)
    ctx.fault("real_fit")
    set_phase(0)
    if ok:
      for l in w.folded():
        w.clock[l.name] += n
      w.check_clock("after-real-fit")
  elif k == "JUMP":
    for l in w.folded():
      d = l.ema_freeze_delay
      v = op["v"] if d is None or op.get("abs") else d + op["v"]
      l._iteration.assign(int(v))
      w.clock[l.name] = int(v)
    ctx.fault("clock_jump")
  elif k == "STATS":
    g = np.random.Generator(np.random.PCG64(int(op["seed"])))
    for l in w.folded():
      seed_layer(l, g, op["kind"])
      l._iteration.assign(w.clock[l.name])
    ctx.fault("bn_stats_" + op["kind"])
  elif k == "RESTART":
    from qkeras import utils as qu
    route = op["route"]
    before = M.predict(w.model, probe(9))
    ok, m2 = guard(ctx, "restart:%s" % route, M.restart_model, w.model, route,
                   w.scratch, always=True)
    ctx.fault("restart_" + route)
    if not ok:
      return
    ctx.checked()
    y2 = M.predict(m2, probe(9))
    if not np.array_equal(before, y2, equal_nan=True):
      ctx.violation("restart:%s|folded-model-predictions-differ" % route,
                    "max diff %g" % float(np.nanmax(np.abs(
                        before.astype(np.float64) - y2))))
      return
    w.model = m2
    w.check_clock("after-restart:" + route)
  elif k == "UNFOLD":
    from qkeras import bn_folding_utils as bu
    x = probe(op.get("xseed", 3))
    y = M.predict(w.model, x)
    ok, um = guard(ctx, "unfold_model", bu.unfold_model, w.model, always=True)
    ctx.fault("unfold")
    if not ok:
      return
    ctx.checked()
    if any(type(l).__name__ in FOLDED for l in um.layers):
      ctx.violation("unfold|folded-layer-left", "unfold_model kept a folded "
                    "layer")
      return
    yu = M.predict(um, x)
    tol = 1e-4 * max(1e-6, float(np.abs(y).max())) + 1e-5
    ref, stable = reference_model(w.model)
    if not stable:
      ctx.probe("folded_value_near_rounding_breakpoint_not_judged")
      return
    if not np.isfinite(y).all():
      ctx.probe("reference_not_finite_not_judged")
      return
    judged = np.ones(y.shape, dtype=bool)
    if y.shape == yu.shape:
      r64 = np.asarray(ref(tf.constant(x), training=False).numpy()).astype(
          np.float64)
      judged = breakpoint_mask(ctx, w, ref, x, r64, tol) \
          if r64.shape == y.shape else judged
      if judged is None:
        return
    if y.shape != yu.shape or np.abs(y.astype(np.float64) - yu)[
        judged].max() > tol:
      ctx.violation("unfold|predictions-differ|%s" % ";".join(sorted(
          {type(l).__name__ for l in w.folded()})),
          "unfold_model changes inference predictions by %g (tolerance %g)" % (
              float(np.abs(y.astype(np.float64) - yu).max())
              if y.shape == yu.shape else -1, tol))
  else:
    raise HarnessError("op " + k)


def execute(scn, known=(), stop=True):
  ctx = Ctx("C15", known, stop_on_violation=stop)
  fresh_session(int(scn.get("seed", 0)))
  w = None
  try:
    w = World(ctx, scn)
    for i, op in enumerate(scn["ops"]):
      ctx.step = i
      apply_op(ctx, w, op)
    ctx.step = len(scn["ops"])
  except StopRun:
    pass
  finally:
    if w is not None:
      w.scratch.close()
    set_phase(0)
  return ctx.result()


# ---------------------------------------------------------------------------
ENGINE = "T"
LEVEL = "exploration"
RULE = ("scenario = model of 1-2 folded layers (QConv2DBatchnorm / "
        "QDepthwiseConv2DBatchnorm x folding mode x use_bias/center/scale x "
        "stride 1-2 x same/valid x dilation 1-2 x ema_freeze_delay in {None,0,"
        "1,3} x kernel/bias quantizers), built directly or by converting a "
        "stock conv+BN model (with a relu or a branch) through model_quantize("
        "enable_bn_folding); + <=12 seeded ops (TRAIN call / INFER probe / "
        "clock JUMP biased to freeze_delay+{-1,0,1} / STATS faults tiny "
        "variance, zero or negative gamma, large mean / RESTART via json, "
        "clone, h5 / UNFOLD); non-trivial = a fault (training step, clock "
        "jump, stats fault, restart, unfold, conversion) fired and an oracle "
        "check ran afterwards; distinct = distinct (op-kind sequence, fired "
        "fault kinds, layer-option bucket)")
REAL = ["qkeras QConv2DBatchnorm / QDepthwiseConv2DBatchnorm (call, "
        "get_folded_weights)", "bn_folding_utils.unfold_model", "utils."
        "convert_to_folded_model / model_quantize(enable_bn_folding)",
        "tf_keras BatchNormalization, conv kernels, saving"]
STUB = ["optimizer / training loop: training calls are forward passes with "
        "training=True; parameters are set directly (trained-like statistics "
        "and fault statistics)"]


def generate(rng):
  n = rng.wpick([(1, 3), (2, 1)])
  layers = [gen_folded(rng) for _ in range(n)]
  if n == 2:
    # keep shapes valid
    for l in layers:
      l["padding"] = "same"
      l["strides"] = 1
  world = {"layers": layers, "wseed": rng.subseed()}
  # batch-norm hyper-parameters and a fused activation: only for directly built
  # folded layers (the conversion utilities rebuild the architecture with
  # default BN hyper-parameters and never copy weights, DESIGN 6.3)
  direct_opts = []
  for l in layers:
    o = {}
    if rng.chance(0.4):
      o["epsilon"] = rng.pick([1e-2, 1e-5, 0.1])
    if rng.chance(0.3):
      o["momentum"] = rng.pick([0.9, 0.5, 0.0])
    if rng.chance(0.3):
      o["act"] = rng.pick([{"str": "quantized_relu(4,1)"},
                           {"str": "quantized_bits(6,2,1)"},
                           {"cls": "quantized_relu", "kw": {
                               "bits": 6, "integer": 2,
                               "negative_slope": 0.125}}])
    direct_opts.append(o)
  if rng.chance(0.3):
    world["convert"] = True
    world["relu_between"] = rng.chance(0.5)
    world["branch"] = rng.chance(0.4)
    world["skip"] = rng.chance(0.3)
    world["oplambda"] = rng.chance(0.3)
    for l in layers:
      if rng.chance(0.25):
        # a conv with its own activation in front of the BN: bn(relu(conv))
        # is not relu(bn(conv)), such a pair must not be folded
        l["conv_act"] = "relu"
    if rng.chance(0.5):
      world["convert_folding_mode"] = rng.pick(["ema_stats_folding",
                                                "batch_stats_folding"])
  else:
    for l, o in zip(layers, direct_opts):
      l.update(o)
    if rng.chance(0.3):
      world["layers"].insert(1, {"t": "QActivation", "aq": {
          "str": rng.pick(["quantized_relu(6,2)", "quantized_bits(8,3,1)"])}})
  ops = [{"k": "INFER", "xseed": rng.subseed()}] if rng.chance(0.5) else []
  for _ in range(rng.randrange(3, 12)):
    k = rng.wpick([("TRAIN", 5), ("INFER", 5), ("JUMP", 2), ("STATS", 2),
                   ("RESTART", 1), ("UNFOLD", 1), ("FIT", 0.8)])
    op = {"k": k}
    if k in ("INFER", "TRAIN", "UNFOLD", "FIT"):
      op["xseed"] = rng.subseed()
    if k == "FIT":
      op["steps"] = rng.randrange(1, 4)
    if k == "JUMP":
      if rng.chance(0.7):
        op["v"] = rng.pick([-1, 0, 1])
      else:
        op["v"] = rng.pick([-1, 0, 5, 100, 10 ** 6])
        op["abs"] = True
    if k == "STATS":
      op["kind"] = rng.pick(["tiny_var", "zero_gamma", "neg_gamma", "big_mean",
                             "normal"])
      op["seed"] = rng.subseed()
    if k == "RESTART":
      op["route"] = rng.pick(["json", "clone", "h5_path", "h5_fileobj"])
    ops.append(op)
  ops.append({"k": "INFER", "xseed": rng.subseed()})
  return {"seed": rng.subseed(), "world": world, "ops": ops}


def directed():
  out = []
  qk = {"cls": "quantized_bits", "kw": {"bits": 6, "integer": 1,
                                        "symmetric": 1, "alpha": 1.0}}
  qb = {"cls": "quantized_bits", "kw": {"bits": 8, "integer": 3}}
  i = 0
  for t in FOLDED:
    for mode in ("ema_stats_folding", "batch_stats_folding"):
      for delay in (None, 0, 1, 3):
        for quant in (False, True):
          for ub, center, scale in ((True, True, True), (False, True, True),
                                    (True, False, True), (True, True, False)):
            i += 1
            if (i % 3) and not (ub and center and scale):
              continue
            l = {"t": t, "kernel": 2, "strides": 1 + (i % 2),
                 "padding": ["valid", "same"][i % 2], "use_bias": ub,
                 "center": center, "scale": scale, "ema_freeze_delay": delay,
                 "folding_mode": mode, "bq": qb if quant else None}
            if t == "QConv2DBatchnorm":
              l["filters"] = 3
              l["kq"] = qk if quant else None
            else:
              l["dq"] = qk if quant else None
              if i % 2:
                l["depth_multiplier"] = 2
            ops = [{"k": "INFER", "xseed": 1}]
            for s in range(5):
              ops.append({"k": "TRAIN", "xseed": 10 + s})
              ops.append({"k": "INFER", "xseed": 20 + s})
            ops += [{"k": "FIT", "steps": 2, "xseed": 40},
                    {"k": "INFER", "xseed": 41},
                    {"k": "STATS", "kind": "tiny_var", "seed": 3},
                    {"k": "INFER", "xseed": 31},
                    {"k": "STATS", "kind": "neg_gamma", "seed": 4},
                    {"k": "INFER", "xseed": 32},
                    {"k": "JUMP", "v": 0}, {"k": "INFER", "xseed": 33},
                    {"k": "UNFOLD", "xseed": 34},
                    {"k": "RESTART", "route": "json"},
                    {"k": "INFER", "xseed": 35}]
            out.append({"label": "directed:%s:%s:delay%s:%s:b%d%d%d" % (
                t, mode, delay, "q" if quant else "f", ub, center, scale),
                        "seed": 1, "world": {"layers": [l], "wseed": 100 + i},
                        "ops": ops})
  for t in FOLDED:
    l = {"t": t, "kernel": 2, "strides": 1, "padding": "same",
         "use_bias": True, "center": True, "scale": True}
    if t == "QConv2DBatchnorm":
      l["filters"] = 2
    out.append({"label": "directed:convert:%s:preactivation-skip" % t,
                "seed": 1, "world": {"layers": [l, dict(l)], "wseed": 8,
                                     "convert": True, "relu_between": True,
                                     "skip": True},
                "ops": [{"k": "INFER", "xseed": 1}]})
  for t in FOLDED:
    l = {"t": t, "kernel": 2, "strides": 1, "padding": "same",
         "use_bias": True, "center": True, "scale": True}
    if t == "QConv2DBatchnorm":
      l["filters"] = 2
    out.append({"label": "directed:convert:%s:op-layers-between-blocks" % t,
                "seed": 1, "world": {"layers": [l, dict(l)], "wseed": 9,
                                     "convert": True, "oplambda": True},
                "ops": [{"k": "INFER", "xseed": 1}]})
    out.append({"label": "directed:convert:%s:conv-with-own-activation" % t,
                "seed": 1, "world": {"layers": [dict(l, conv_act="relu"),
                                                dict(l)], "wseed": 10,
                                     "convert": True},
                "ops": [{"k": "INFER", "xseed": 1}]})
  for branch in (False, True):
    for t in FOLDED:
      l = {"t": t, "kernel": 2, "strides": 1, "padding": "same",
           "use_bias": not branch, "center": True, "scale": True}
      if t == "QConv2DBatchnorm":
        l["filters"] = 3
      out.append({"label": "directed:convert:%s:branch%d" % (t, branch),
                  "seed": 1, "world": {"layers": [l, dict(l)], "wseed": 7,
                                       "convert": True, "relu_between": True,
                                       "branch": branch},
                  "ops": [{"k": "INFER", "xseed": 1}, {"k": "TRAIN", "xseed": 2},
                          {"k": "INFER", "xseed": 3},
                          {"k": "UNFOLD", "xseed": 4}]})
  return out


def simplify(scn):
  w = scn["world"]
  for key in ("convert", "branch", "relu_between", "skip", "oplambda"):
    if w.get(key):
      c = json.loads(json.dumps(scn))
      del c["world"][key]
      yield c
  if len(w["layers"]) > 1:
    for i in range(len(w["layers"])):
      c = json.loads(json.dumps(scn))
      del c["world"]["layers"][i]
      if any(l["t"] in FOLDED for l in c["world"]["layers"]):
        yield c
  for i, l in enumerate(w["layers"]):
    for key, val in (("kq", None), ("dq", None), ("bq", None),
                     ("ema_freeze_delay", None), ("use_bias", True),
                     ("center", True), ("scale", True), ("strides", 1),
                     ("epsilon", None), ("momentum", None), ("act", None),
                     ("conv_act", None),
                     ("dilation", 1)):
      if key in l and l[key] != val:
        c = json.loads(json.dumps(scn))
        c["world"]["layers"][i][key] = val
        yield c


def bucket(scn):
  w = scn["world"]
  return [[(l["t"], l.get("folding_mode"), l.get("ema_freeze_delay"),
            l.get("use_bias"), l.get("center"), l.get("scale"),
            l.get("strides"), l.get("padding"), l.get("dilation"),
            l.get("depth_multiplier"),
            bool(l.get("kq") or l.get("dq")), bool(l.get("bq")))
           for l in w["layers"]], bool(w.get("convert")),
          bool(w.get("branch")), bool(w.get("skip"))]
