"""C07 - qnoise_factor interpolation (engine Q) and the noise scheduler (engine T).

Quantizer half: the knob is mutable state (python float or tf.Variable) under
build / update / trace orderings.  Shadow model: the expected factor f.  After
every CALL:  y = s + f*(y1 - s)  (4 ulp), where y1 is a fresh fully-quantizing
sibling and s the documented surrogate computed independently in numpy;
f = 1 must be bit-identical to the sibling; a sibling constructed with f as a
constructor constant must agree; a tf.function traced after the variable build
must follow later updates.

Scheduler half: a virtual step clock emits legal Keras callback sequences
(train_begin (epoch_begin (batch_begin batch_end)* epoch_end)* train_end) with
interrupts, repeated fits with the same callback, resumes with a fresh callback
and initial_step_or_epoch, clock jumps.  The model, quantizers and callback are
real.  REALFIT runs the real model.fit with a recording callback applying the
same oracle, which validates the simulated event source against Keras.
"""
import json

import numpy as np

from . import engine_q as Q
from . import qspecs
from .core import Ctx, HarnessError, StopRun, guard
from .seams import UniformSeam, fresh_session, set_phase, tf_setup

KNOB = ["quantized_bits", "quantized_linear", "quantized_relu", "quantized_po2",
        "quantized_relu_po2", "quantized_hswish"]


# ---------------------------------------------------------------------------
# quantizer half
def surrogate(spec, x):
  """Documented unquantized activation, float32 numpy."""
  c, kw = spec["cls"], spec["kw"]
  x = x.astype(np.float32)
  if c in ("quantized_bits", "quantized_linear", "quantized_po2"):
    return x
  if c == "quantized_hswish":
    sh = np.float32(kw.get("relu_shift", 3))
    ub = np.float32(kw.get("relu_upper_bound", 6))
    r = np.where(x + sh <= ub, np.maximum(x + sh, np.float32(0)), ub)
    return (x * r.astype(np.float32) / ub).astype(np.float32)
  if c == "quantized_relu":
    slope = np.float32(kw.get("negative_slope", 0.0))
    bits = kw.get("bits", 8)
    integer = kw.get("integer", 0)
    nsb = bits - (1 if slope != 0 else 0)
    m_i = np.float32(2.0 ** integer)
    m_f = np.float32(2.0 ** (integer - nsb))
    lr = np.where(x >= 0, x, slope * x).astype(np.float32)
    if kw.get("is_quantized_clip", True):
      return np.where(x <= m_i - m_f, lr, m_i - m_f).astype(np.float32)
    ub = kw.get("relu_upper_bound")
    if ub is not None:
      return np.where(x <= np.float32(ub), lr, np.float32(ub)).astype(np.float32)
    return lr
  if c == "quantized_relu_po2":
    slope = np.float32(kw.get("negative_slope", 0))
    lr = np.where(x >= 0, x, slope * x).astype(np.float32)
    mv = kw.get("max_value")
    if mv is None:
      return lr
    return np.where(x <= np.float32(mv), lr, np.float32(mv)).astype(np.float32)
  raise HarnessError(c)


def with_f(spec, f):
  kw = dict(spec["kw"])
  kw["qnoise_factor"] = f
  return {"cls": spec["cls"], "kw": kw, "shape": spec["shape"]}


class QHalf(Q.QOracle):
  focus = "c07"

  def start(self):
    w = self.w
    self.f = [float(s["kw"].get("qnoise_factor", 1.0)) for s in w.specs]
    self.ref1 = [Q.build_quantizer(with_f(s, 1.0)) for s in w.specs]
    # the fully quantized value must not depend on use_ste: a second sibling
    # with the other setting cross-checks the first (a defect in one mixing
    # expression would otherwise be shared by the live object and its f=1
    # sibling and cancel out of the interpolation check)
    self.ref1_other = []
    for s in w.specs:
      if s["cls"] in ("quantized_bits", "quantized_relu", "quantized_po2",
                      "quantized_relu_po2"):
        o = with_f(s, 1.0)
        o["kw"]["use_ste"] = not s["kw"].get("use_ste", True)
        self.ref1_other.append(Q.build_quantizer(o))
      else:
        self.ref1_other.append(None)
    self.alpha_now = [s["kw"].get("alpha") for s in w.specs]
    # use_variables=True at construction: variable-backed from the first build
    self.isvar = [bool(s["kw"].get("use_variables")) for s in w.specs]
    self.trained = [False] * w.n()

  def mirror(self, op):
    k = op["k"]
    if k == "QNOISE":
      self.f[op["q"]] = float(np.float32(op["f"]))
    elif k == "BUILDV":
      self.isvar[op["q"]] = True
      # a trace taken before the variable build captured a constant
      self.w.traced.pop(op["q"], None)
    elif k == "TRAINABLE":
      self.ref1[op["q"]]._set_trainable_parameter()
      if self.ref1_other[op["q"]] is not None:
        self.ref1_other[op["q"]]._set_trainable_parameter()
      self.trained[op["q"]] = True
    elif k == "TRACE":
      if not self.isvar[op["q"]]:
        self.ctx.probe("trace_before_variable_build")
      else:
        self.ctx.probe("trace_after_variable_build")

  def knob_is_variable(self, qi, q):
    # the SHADOW state decides: once build(use_variables=True) was requested
    # the knob is supposed to be variable-backed, so a later trace is judged
    # (an implementation that silently keeps a python float is then caught
    # by the traced call not following updates)
    return self.isvar[qi]

  def on_restart(self, qi, op, ok):
    tf = tf_setup()
    q = self.w.qs[qi]
    self.isvar[qi] = isinstance(getattr(q, "qnoise_factor", None), tf.Variable)

  def on_call(self, qi, op, x, y, scale, failed):
    w, ctx = self.w, self.ctx
    spec = w.specs[qi]
    c, kw = spec["cls"], spec["kw"]
    if failed:
      return
    f = self.f[qi]
    traced = qi in w.traced
    if traced and isinstance(self.ref1[qi].__dict__.get(
        "alpha", getattr(self.ref1[qi], "alpha", None)), str):
      # graph-mode float reassociation can move a data-dependent scale by one
      # ulp and flip a code relative to the eager sibling: not judged
      ctx.probe("traced_auto_scale_not_judged")
      return
    y1 = w.call_raw(self.ref1[qi], x, op.get("sub", 0))
    s = surrogate(spec, x)
    ctx.checked()
    if self.ref1_other[qi] is not None:
      y1o = w.call_raw(self.ref1_other[qi], x, op.get("sub", 0))
      a, b = y1.astype(np.float64), y1o.astype(np.float64)
      if np.isfinite(a).all() and np.isfinite(b).all():
        tol1 = 1e-6 * np.maximum(np.maximum(np.abs(a), np.abs(
            s.astype(np.float64))), 1e-30)
        if (np.abs(a - b) > tol1).any():
          i = int(np.argmax((np.abs(a - b) - tol1).reshape(-1)))
          ctx.violation("%s|fully-quantized-value-depends-on-use_ste" % c,
                        "factor 1: use_ste=%r gives %r, use_ste=%r gives %r at "
                        "x=%r; kw=%r" % (
                            kw.get("use_ste", True), float(a.reshape(-1)[i]),
                            not kw.get("use_ste", True),
                            float(b.reshape(-1)[i]), float(x.reshape(-1)[i]),
                            kw))
          return
    if traced:
      ctx.probe("judged_through_trace")
    live_f = getattr(w.qs[qi], "qnoise_factor", None)
    live_f = float(live_f.numpy()) if hasattr(live_f, "numpy") else float(live_f)
    if abs(live_f - f) > 1e-7:
      ctx.violation("%s|stored-factor-differs" % c,
                    "update API left factor %r, expected %r" % (live_f, f))
      return
    y64, y164, s64 = (y.astype(np.float64), y1.astype(np.float64),
                      s.astype(np.float64))
    if not (np.isfinite(y64).all() and np.isfinite(y164).all()):
      ctx.probe("non_finite_not_judged")
      return
    scale_mag = np.maximum(np.maximum(np.abs(s64), np.abs(y164)), 1e-30)
    tol = 1e-6 * scale_mag
    if f == 1.0:
      ctx.probe("f_is_1")
      if not Q.same(y, y1) and not traced:
        i = int(np.argmax(np.abs(y64 - y164).reshape(-1)))
        ctx.violation("%s|f1-not-fully-quantized" % c,
                      "factor 1 differs from the fully quantizing sibling: "
                      "%r vs %r at x=%r; kw=%r" % (
                          float(y64.reshape(-1)[i]), float(y164.reshape(-1)[i]),
                          float(x.reshape(-1)[i]), kw))
        return
    if f == 0.0:
      ctx.probe("f_is_0")
    want = s64 + f * (y164 - s64)
    bad = np.abs(y64 - want) > tol
    unstable = np.zeros(bad.shape, dtype=bool)
    if traced and bad.any():
      # graph mode may reassociate the float expression in front of the
      # rounding: an element whose pre-rounding value sits on a tie can land on
      # the other code in a traced call.  Such elements are identified on the
      # eager fully-quantizing sibling alone (its output moves when x is scaled
      # by 1 +- 3e-6) and not judged through a trace.
      for fac in (1.0 + 3e-6, 1.0 - 3e-6):
        xp = (x.astype(np.float64) * fac).astype(np.float32)
        y1p = w.call_raw(self.ref1[qi], xp, op.get("sub", 0)).astype(
            np.float64)
        unstable |= np.abs(y1p - y164) > tol + 1e-5 * np.abs(y164)
      w.call_raw(self.ref1[qi], x, op.get("sub", 0))   # restore last-call state
      if (bad & unstable).any():
        ctx.probe("traced_rounding_tie_not_judged")
      bad &= ~unstable
    if bad.any():
      i = int(np.argmax((np.abs(y64 - want) - tol).reshape(-1)))
      ctx.violation("%s|not-interpolated" % c,
                    "f=%r x=%r: y=%r but surrogate %r + f*(quantized %r - "
                    "surrogate) = %r; kw=%r var=%r traced=%r" % (
                        f, float(x.reshape(-1)[i]), float(y64.reshape(-1)[i]),
                        float(s64.reshape(-1)[i]), float(y164.reshape(-1)[i]),
                        float(want.reshape(-1)[i]), kw, self.isvar[qi], traced))
      return
    # sibling with f as constructor constant
    sib = Q.build_quantizer(with_f(spec, f))
    if self.trained[qi]:
      sib._set_trainable_parameter()
    ys = w.call_raw(sib, x, op.get("sub", 0))
    ctx.checked()
    err = np.abs(ys.astype(np.float64) - y64)
    err = np.where(unstable, 0.0, err)    # ties judged through a trace: no
    if (err > tol).any():
      i = int(np.argmax((err - tol).reshape(-1)))
      ctx.violation("%s|constructor-constant-differs-from-updated" % c,
                    "f=%r: constructed-with-f gives %r, updated-to-f gives %r "
                    "at x=%r; kw=%r var=%r" % (
                        f, float(ys.reshape(-1)[i]), float(y64.reshape(-1)[i]),
                        float(x.reshape(-1)[i]), kw, self.isvar[qi]))


Q_WEIGHTS = {"CALL": 10, "QNOISE": 5, "BUILDV": 1.5, "TRACE": 1.5,
             "TRAINABLE": 0.5, "RESTART": 0.7}
Q_KINDS = [("gauss", 5), ("uniform", 2), ("grid", 1), ("mixed", 2),
           ("zero_channel", 1), ("po2", 1)]
Q_MAGS = [1.0, 1.0, 0.3, 3.0, 10.0]


def c07_spec(rng):
  cls = rng.pick(KNOB)
  s = qspecs.gen_spec(rng, cls, focus="c07")
  kw = s["kw"]
  kw.pop("use_stochastic_rounding", None)
  if rng.chance(0.6):
    kw["qnoise_factor"] = rng.pick([0.0, 1.0, 0.5, 0.25, 0.75, 0.125, 0.3])
  return s


def gen_q(rng):
  nq = rng.wpick([(1, 5), (2, 3), (3, 1)])
  world = {"quantizers": [c07_spec(rng) for _ in range(nq)]}
  ops = Q.gen_ops(rng, world, Q_WEIGHTS, rng.randrange(8, 28), Q_KINDS, Q_MAGS)
  return {"engine": "Q", "seed": rng.subseed(), "world": world, "ops": ops}


def directed_q():
  out = []
  tensors = [{"kind": "gauss", "seed": 51, "mag": 1.0},
             {"kind": "mixed", "seed": 52, "mag": 3.0},
             {"kind": "uniform", "seed": 53, "mag": 8.0}]
  fs = [0.0, 0.25, 0.5, 1.0, 0.3]
  for label, spec in qspecs.option_probe_specs():
    if spec["cls"] not in KNOB:
      continue
    kw = dict(spec["kw"])
    if kw.get("use_stochastic_rounding"):
      continue
    for order in ("float", "var_then_trace", "trace_then_var",
                  "call_var_trace"):
      ops = []
      sub = 0
      if order == "var_then_trace":
        ops += [{"k": "BUILDV", "q": 0}, {"k": "TRACE", "q": 0}]
      elif order == "call_var_trace":
        # built with python-float storage by a first call, then switched to
        # variable-backed storage (what QNoiseScheduler.set_quantizers does)
        ops += [{"k": "CALL", "q": 0, "t": tensors[0], "sub": 98},
                {"k": "BUILDV", "q": 0}, {"k": "TRACE", "q": 0}]
      elif order == "trace_then_var":
        ops += [{"k": "TRACE", "q": 0},
                {"k": "CALL", "q": 0, "t": tensors[0], "sub": 99},
                {"k": "BUILDV", "q": 0}, {"k": "TRACE", "q": 0}]
      for f in fs:
        ops.append({"k": "QNOISE", "q": 0, "f": f,
                    "as": "float" if order == "float" else "const"})
        for t in tensors:
          sub += 1
          ops.append({"k": "CALL", "q": 0, "t": t, "sub": sub})
      out.append({"engine": "Q", "label": "directed:q:%s:%s" % (label, order),
                  "seed": 1, "world": {"quantizers": [
                      {"cls": spec["cls"], "kw": kw, "shape": [4, 4]}]},
                  "ops": ops})
  return out


# ---------------------------------------------------------------------------
# scheduler half
LAYER_TEMPLATES = ["qdense", "qdense_act", "qact", "qconv", "plain"]


def make_model(mspec):
  """Small functional model from a plain-data spec.  Shared quantizer
  objects are expressed by 'share': index of an earlier layer."""
  tf = tf_setup()
  import tf_keras as keras
  from qkeras import QActivation, QConv2D, QDense
  objs = {}

  def qz(desc, key):
    if desc is None:
      return None
    if isinstance(desc, dict) and "share" in desc:
      return objs[tuple(desc["share"])]
    q = Q.build_quantizer({"cls": desc["cls"], "kw": desc.get("kw", {})})
    objs[key] = q
    return q

  import qkeras as qk
  if mspec.get("lazy"):
    # a Sequential model WITHOUT an input shape: nothing (no layer, no
    # quantizer) is built until the first batch of fit arrives
    seq_layers = []
    for i, l in enumerate(mspec["layers"]):
      t, name = l["t"], "l%d" % i
      if t == "qdense":
        seq_layers.append(QDense(3, kernel_quantizer=qz(l.get("kq"), (i, "k")),
                                 bias_quantizer=qz(l.get("bq"), (i, "b")),
                                 name=name))
      elif t == "qdense_act":
        seq_layers.append(QDense(3, kernel_quantizer=qz(l.get("kq"), (i, "k")),
                                 bias_quantizer=qz(l.get("bq"), (i, "b")),
                                 activation=qz(l.get("aq"), (i, "a")),
                                 name=name))
      elif t == "qact":
        seq_layers.append(QActivation(qz(l.get("aq"), (i, "a")), name=name))
      else:
        raise HarnessError("lazy model layer " + t)
    seq_layers.append(keras.layers.Dense(2, name="out"))
    return keras.Sequential(seq_layers, name="lazy")
  IMG = ("qconv", "qdw", "qsep", "qpool")
  conv = any(l["t"] in IMG for l in mspec["layers"])
  seq = any(l["t"] in ("qrnn", "qbidir") for l in mspec["layers"])
  if conv:
    inp = keras.Input((4, 4, 2), name="in")
  elif seq:
    inp = keras.Input((4, 3), name="in")
  else:
    inp = keras.Input((4,), name="in")
  x = inp
  flat = not (conv or seq)
  for i, l in enumerate(mspec["layers"]):
    t = l["t"]
    name = "l%d" % i
    if t in IMG:
      if flat or seq:
        continue
      if t == "qconv":
        x = QConv2D(2, (2, 2), padding="same",
                    kernel_quantizer=qz(l.get("kq"), (i, "k")),
                    bias_quantizer=qz(l.get("bq"), (i, "b")), name=name)(x)
      elif t == "qdw":
        x = qk.QDepthwiseConv2D((2, 2), padding="same",
                                depthwise_quantizer=qz(l.get("kq"), (i, "k")),
                                bias_quantizer=qz(l.get("bq"), (i, "b")),
                                name=name)(x)
      elif t == "qsep":
        x = qk.QSeparableConv2D(2, (2, 2), padding="same",
                                depthwise_quantizer=qz(l.get("kq"), (i, "k")),
                                pointwise_quantizer=qz(l.get("pq"), (i, "p")),
                                bias_quantizer=qz(l.get("bq"), (i, "b")),
                                name=name)(x)
      elif t == "qpool":
        x = qk.QAveragePooling2D(pool_size=2, padding="same",
                                 average_quantizer=qz(l.get("kq"), (i, "k")),
                                 activation=qz(l.get("aq"), (i, "a")),
                                 name=name)(x)
    elif t in ("qrnn", "qbidir"):
      if conv or flat:
        continue
      cls = getattr(qk, l.get("rnn", "QSimpleRNN"))
      akw = {}
      if l.get("act"):
        akw["activation"] = qz(l["act"], (i, "act"))
      if l.get("ract") and l.get("rnn") == "QLSTM":
        akw["recurrent_activation"] = qz(l["ract"], (i, "ract"))
      if l.get("wrap") == "keras_rnn_cell":
        # stock keras RNN around the quantized cell
        cell = getattr(qk, l.get("rnn", "QSimpleRNN") + "Cell")(
            2, kernel_quantizer=qz(l.get("kq"), (i, "k")),
            recurrent_quantizer=qz(l.get("rq"), (i, "r")),
            bias_quantizer=qz(l.get("bq"), (i, "b")),
            state_quantizer=qz(l.get("sq"), (i, "s")), **akw)
        x = keras.layers.RNN(cell, return_sequences=True, name=name)(x)
        continue
      if l.get("wrap") == "timedistributed":
        x = keras.layers.TimeDistributed(QDense(
            3, kernel_quantizer=qz(l.get("kq"), (i, "k")),
            bias_quantizer=qz(l.get("bq"), (i, "b"))), name=name)(x)
        continue
      lay = cls(2, kernel_quantizer=qz(l.get("kq"), (i, "k")),
                recurrent_quantizer=qz(l.get("rq"), (i, "r")),
                bias_quantizer=qz(l.get("bq"), (i, "b")),
                state_quantizer=qz(l.get("sq"), (i, "s")),
                return_sequences=True, name=name, **akw)
      if l.get("wrap") == "keras_bidirectional":
        # stock keras Bidirectional around a quantized recurrent layer
        x = keras.layers.Bidirectional(cls(
            2, kernel_quantizer=qz(l.get("kq"), (i, "k")),
            recurrent_quantizer=qz(l.get("rq"), (i, "r")),
            bias_quantizer=qz(l.get("bq"), (i, "b")),
            return_sequences=True, **akw), name=name)(x)
        continue
      if t == "qbidir":
        lay = qk.QBidirectional(cls(
            2, kernel_quantizer=qz(l.get("kq"), (i, "k")),
            recurrent_quantizer=qz(l.get("rq"), (i, "r")),
            bias_quantizer=qz(l.get("bq"), (i, "b")),
            return_sequences=True, **akw), name=name)
      x = lay(x)
    else:
      if not flat:
        x = keras.layers.Flatten(name="flat%d" % i)(x)
        flat = True
      if t == "qbn":
        x = qk.QBatchNormalization(name=name)(x)
      elif t == "qdense":
        x = QDense(3, kernel_quantizer=qz(l.get("kq"), (i, "k")),
                   bias_quantizer=qz(l.get("bq"), (i, "b")), name=name)(x)
      elif t == "qdense_act":
        x = QDense(3, kernel_quantizer=qz(l.get("kq"), (i, "k")),
                   bias_quantizer=qz(l.get("bq"), (i, "b")),
                   activation=qz(l.get("aq"), (i, "a")), name=name)(x)
      elif t == "qact":
        x = QActivation(qz(l.get("aq"), (i, "a")), name=name)(x)
      elif t == "nested":
        # a nested model holding quantized layers
        sub = keras.Sequential([
            QDense(3, kernel_quantizer=qz(l.get("kq"), (i, "k")),
                   bias_quantizer=qz(l.get("bq"), (i, "b")),
                   name=name + "_d"),
            QActivation(qz(l.get("aq"), (i, "a")), name=name + "_a")],
                               name=name)
        x = sub(x)
      elif t == "plain":
        x = keras.layers.Dense(3, name=name)(x)
  if not flat:
    x = keras.layers.Flatten(name="flat_end")(x)
  x = keras.layers.Dense(2, name="out")(x)
  return keras.Model(inp, x)


def knob_quantizers(model):
  """Independent walk: every quantizer object reachable from a layer
  attribute (or a list attribute) that has the knob."""
  from qkeras.base_quantizer import BaseQuantizer
  seen = {}

  def walk(owner, lname, prefix, depth):
    for k, v in list(vars(owner).items()):
      if k in ("_self_tracked_trackables", "_obj_reference_counts_dict"):
        continue
      vs = v if isinstance(v, (list, tuple)) else [v]
      for o in vs:
        if isinstance(o, BaseQuantizer) and hasattr(o, "qnoise_factor"):
          seen.setdefault(id(o), (lname, prefix + k, o))
      # recurrent cells and wrapped layers hold the quantizers of RNN /
      # bidirectional layers
      if k == "layer" and hasattr(owner, "forward_layer"):
        # Bidirectional keeps the template layer it was given; the forward
        # and backward copies are the ones that compute
        continue
      if depth < 2 and k in ("cell", "forward_layer", "backward_layer",
                             "layer") and v is not None and hasattr(
                                 v, "__dict__"):
        walk(v, lname, prefix + k + ".", depth + 1)
  def every_layer(m):
    for layer in m.layers:
      yield layer
      if hasattr(layer, "layers"):       # nested model
        for sub in every_layer(layer):
          yield sub
  for layer in every_layer(model):
    walk(layer, layer.name, "", 0)
  return list(seen.values())


def factor_of(q):
  f = q.qnoise_factor
  return float(f.numpy()) if hasattr(f, "numpy") else float(f)


def expected_factor(t, start, finish, exponent):
  if t < start:
    return 0.0
  if t >= finish:
    return 1.0
  return 1.0 - ((finish - t) / float(finish - start)) ** exponent


class SchedOracle:
  """Shadow model of the schedule: judged only at update steps."""

  def __init__(self, ctx, model):
    self.ctx = ctx
    self.model = model
    self.last = None       # last judged factor of this lineage
    self.reached_one = False

  def new_callback(self, cbspec, consistent_resume):
    self.cb = cbspec
    self.n = 0
    if not consistent_resume:
      self.last = None
    # per-step observations of THIS callback object's lifetime
    self.life_last = None
    self.begun = False

  def observe(self, where):
    """Every event (update step or not): within one callback object's lifetime
    the factor of every knob never decreases.  The first on_train_begin of a
    callback object (re)initialises the knobs to 0 - a transient the library
    documents ("pretrain without quantization") - and is the start of the
    lifetime, so it is not compared with what came before."""
    if not self.begun:
      self.begun = True
      self.life_last = None
    qs = knob_quantizers(self.model)
    if not qs:
      return
    lo = min(factor_of(q) for _, _, q in qs)
    self.ctx.checked()
    if self.life_last is not None and lo < self.life_last - 1e-6:
      self.ctx.violation("scheduler|factor-decreased-between-update-steps",
                         "%s: a knob went from %r to %r during one scheduler's "
                         "lifetime; cb=%r" % (where, self.life_last, lo,
                                              self.cb))
      return
    self.life_last = lo

  def event(self, where):
    """Called right after the callback handled an update-type event."""
    ctx = self.ctx
    cb = self.cb
    t = cb["initial"] + self.n
    self.n += 1
    if t % cb["update_freq"] != 0:
      return
    want = expected_factor(t, cb["start"], cb["finish"], cb["exponent"])
    qs = knob_quantizers(self.model)
    ctx.checked()
    ctx.probe("update_steps_judged")
    if t < cb["start"]:
      ctx.probe("judged_before_start")
    elif t >= cb["finish"]:
      ctx.probe("judged_from_finish")
      if t == cb["finish"]:
        ctx.probe("step_equals_finish")
    else:
      ctx.probe("judged_on_curve")
    for lname, attr, q in qs:
      got = factor_of(q)
      if abs(got - want) > 1e-6:
        kind = ("before-start" if t < cb["start"] else
                "from-finish" if t >= cb["finish"] else "curve")
        ctx.violation("scheduler|%s|wrong-factor:%s:%s" % (
            type(q).__name__, kind,
            "act-arg" if attr == "activation" else
            "rnn-cell" if "cell" in attr or "layer." in attr else "listed"),
            "%s step %d (%s): %s.%s has factor %r, schedule says %r; cb=%r" % (
                where, t, kind, lname, attr, got, want, cb))
        return
    if self.last is not None and want < self.last - 1e-9:
      raise HarnessError("schedule model not monotone")
    if qs:
      got = factor_of(qs[0][2])
      if self.last is not None and got < self.last - 1e-6:
        ctx.violation("scheduler|factor-decreased",
                      "factor went %r -> %r at step %d" % (self.last, got, t))
      self.last = got


def build_callback(cbspec):
  from qkeras.callbacks import QNoiseScheduler
  return QNoiseScheduler(start=cbspec["start"], finish=cbspec["finish"],
                         freq_type=cbspec["freq_type"],
                         update_freq=cbspec["update_freq"],
                         initial_step_or_epoch=cbspec["initial"],
                         exponent=cbspec["exponent"],
                         use_ste=cbspec.get("use_ste", True))


def run_fit_sim(ctx, model, cb, cbspec, oracle, op, state):
  """Emit the callback events of one (possibly interrupted) fit."""
  tf = tf_setup()
  g = lambda what, fn, *a: guard(ctx, "scheduler|" + what, fn, *a, always=True)
  ok, _ = g("on_train_begin", cb.on_train_begin)
  if not ok:
    return
  oracle.observe("train_begin")
  if op.get("dup_train_begin"):
    ctx.fault("duplicate_train_begin")
    ok, _ = g("on_train_begin", cb.on_train_begin)
    if not ok:
      return
    oracle.observe("train_begin(duplicate)")
  stop = op.get("interrupt")
  for e in range(op["epochs"]):
    ok, _ = g("on_epoch_begin", cb.on_epoch_begin, e)
    if not ok:
      return
    if cbspec["freq_type"] == "epoch":
      oracle.event("epoch_begin")
    oracle.observe("epoch_begin")
    for s in range(op["steps"]):
      if stop is not None and [e, s] == list(stop):
        ctx.fault("interrupt_mid_epoch")
        return
      ok, _ = g("on_train_batch_begin", cb.on_train_batch_begin, s)
      if not ok:
        return
      if cbspec["freq_type"] == "step":
        oracle.event("batch_begin")
      oracle.observe("batch_begin")
      # the training step itself is a stub: perturb weights directly and run
      # a forward pass so that quantizers get built the way fit builds them
      if not state.get("called"):
        state["called"] = True
        model(state["probe"], training=True)
      cb.on_train_batch_end(s)
      state["steps_done"] = state.get("steps_done", 0) + 1
    cb.on_epoch_end(e)
    state["epochs_done"] = state.get("epochs_done", 0) + 1
  cb.on_train_end()


def execute_t(scn, known, stop):
  tf = tf_setup()
  import tf_keras as keras
  ctx = Ctx("C07", known, stop_on_violation=stop)
  fresh_session(int(scn.get("seed", 0)))
  try:
    ok, model = guard(ctx, "scheduler|build-model", make_model, scn["world"])
    if not ok:
      return ctx.result()
    oracle = SchedOracle(ctx, model)
    in_shape = (4,) if scn["world"].get("lazy") else tuple(
        model.input_shape[1:])
    state = {"probe": np.ones((2,) + in_shape, np.float32)}
    cb = None
    cbspec = None
    for i, op in enumerate(scn["ops"]):
      ctx.step = i
      k = op["k"]
      ctx.log("op", k)
      if k in ("FIT", "REALFIT"):
        if cb is None or op.get("new_cb"):
          cbspec = dict(op["cb"])
          consistent = False
          if op.get("resume") and cb is not None:
            # a consistent resume: same schedule, clock continues
            cbspec = dict(state["cbspec"])
            cbspec["initial"] = state["cbspec"]["initial"] + oracle.n
            consistent = True
            ctx.fault("resume_with_fresh_callback")
          elif cb is not None:
            ctx.fault("new_callback_clock_jump")
          ok, cb = guard(ctx, "scheduler|construct", build_callback, cbspec)
          if not ok:
            return ctx.result()
          cb.set_model(model)
          oracle.new_callback(cbspec, consistent)
          state["cbspec"] = cbspec
        else:
          ctx.fault("second_fit_same_callback")
        if k == "FIT":
          run_fit_sim(ctx, model, cb, cbspec, oracle, op, state)
        else:
          run_fit_real(ctx, model, cb, cbspec, oracle, op, state)
      elif k == "LOSSFIT":
        run_loss_fit(ctx, model, op)
      elif k == "PREDICT":
        y_eager = np.asarray(model(state["probe"], training=False).numpy())
        state["called"] = True
        # Behavioural meaning of "variable-backed mode used during training":
        # a function traced AFTER the scheduler switched the knobs to
        # variables must follow later updates.  The trace is only taken once
        # a scheduler has begun (before that, constant capture is TensorFlow's
        # doing) and is then reused for the rest of the run.
        if cb is not None and oracle.begun:
          if "traced" not in state:
            state["traced"] = tf.function(
                lambda t: model(t, training=False))
            ctx.fault("traced_after_scheduler_began")
          y_tr = np.asarray(state["traced"](tf.constant(
              state["probe"])).numpy())
          ctx.checked()
          ctx.probe("traced_predict_compared")
          tolp = 1e-4 * max(1e-6, float(np.abs(y_eager).max())) + 1e-6
          auto = any(isinstance(getattr(q, "alpha", None), str)
                     for l in model.layers
                     for q in (getattr(l, "quantizers", None) or [])
                     if q is not None)
          if not auto and np.isfinite(y_eager).all() and \
              np.abs(y_tr - y_eager).max() > tolp:
            ctx.violation("scheduler|traced-function-does-not-follow-updates",
                          "a tf.function traced after the scheduler began "
                          "returns %r, eager evaluation with the current "
                          "factors %r" % (float(y_tr.reshape(-1)[0]),
                                          float(y_eager.reshape(-1)[0])))
      else:
        raise HarnessError("op " + k)
      for _, _, q in knob_quantizers(model):
        ctx.log("f", factor_of(q))
    ctx.step = len(scn["ops"])
  except StopRun:
    pass
  finally:
    set_phase(0)
  return ctx.result()


def run_loss_fit(ctx, model, op):
  """What the TRACED train step computes with: a real fit with learning rate 0
  (weights never move) and one batch per epoch, so the loss Keras reports for
  epoch e is a pure function of the factor the compiled step used at that
  step.  Expected: the same batch evaluated eagerly with every knob set to the
  shadow schedule's value for that step.  On a lazily built model the
  quantizers do not exist as variables before the first batch, which is the
  "variable-backed mode used during training" at its most delicate."""
  tf = tf_setup()
  import tf_keras as keras
  cbspec = dict(op["cb"])
  ok, cb = guard(ctx, "scheduler|construct", build_callback, cbspec)
  if not ok:
    return
  epochs = int(op.get("epochs", 5))
  g = np.random.Generator(np.random.PCG64(int(op.get("dseed", 0))))
  x = g.standard_normal((2, 4)).astype(np.float32) * 1.5
  y = g.standard_normal((2, 2)).astype(np.float32)
  model.compile(optimizer=keras.optimizers.SGD(0.0), loss="mse")
  ctx.fault("real_fit_lr0_loss_probe")
  ok, hist = guard(ctx, "scheduler|real-fit", lambda: model.fit(
      x, y, batch_size=2, epochs=epochs, steps_per_epoch=1, verbose=0,
      shuffle=False, callbacks=[cb]), always=True)
  set_phase(0)
  if not ok:
    return
  got = [float(v) for v in hist.history["loss"]]
  knobs = knob_quantizers(model)
  if not knobs:
    return
  # shadow schedule: one update opportunity per epoch (= per step)
  cur = 0.0
  want = []
  for e in range(epochs):
    t = cbspec["initial"] + e
    if t % cbspec["update_freq"] == 0:
      cur = expected_factor(t, cbspec["start"], cbspec["finish"],
                            cbspec["exponent"])
    want.append(cur)
  exp_loss = {}
  for f in sorted(set(want)):
    for _, _, q in knobs:
      q.update_qnoise_factor(np.float32(f))
    yy = np.asarray(model(tf.constant(x), training=True).numpy(), np.float64)
    exp_loss[f] = float(np.mean((yy - y) ** 2))
  set_phase(0)
  ctx.checked()
  ctx.probe("traced_train_step_loss_compared", epochs)
  if len(set(round(v, 7) for v in exp_loss.values())) < 2:
    ctx.probe("loss_does_not_depend_on_factor")
    return
  for e in range(epochs):
    w_ = exp_loss[want[e]]
    if abs(got[e] - w_) > 1e-4 * max(1.0, abs(w_)):
      ctx.violation("scheduler|train-step-ignores-scheduled-factor",
                    "epoch %d: the compiled train step reports loss %r, the "
                    "same batch with every knob at the scheduled factor %r "
                    "gives %r; losses per factor %r; cb=%r lazy=%r" % (
                        e, got[e], want[e], w_, exp_loss, cbspec,
                        model.name == "lazy"))
      return


def run_fit_real(ctx, model, cb, cbspec, oracle, op, state):
  """The real Keras training loop drives the callback; a recorder placed after
  it applies the same oracle at the same events."""
  tf = tf_setup()
  import tf_keras as keras

  class Recorder(keras.callbacks.Callback):
    def __init__(self):
      super().__init__()
      self.events = []

    def on_train_begin(self, logs=None):
      oracle.observe("real:train_begin")

    def on_epoch_begin(self, epoch, logs=None):
      self.events.append("E")
      if cbspec["freq_type"] == "epoch":
        oracle.event("real:epoch_begin")
      oracle.observe("real:epoch_begin")

    def on_train_batch_begin(self, batch, logs=None):
      self.events.append("b")
      if cbspec["freq_type"] == "step":
        oracle.event("real:batch_begin")
      oracle.observe("real:batch_begin")

  rec = Recorder()
  if not getattr(model, "_verif_compiled", False):
    model.compile(optimizer=keras.optimizers.SGD(0.01), loss="mse")
    model._verif_compiled = True
  n = op["steps"] * 2
  g = np.random.Generator(np.random.PCG64(int(op.get("dseed", 0))))
  x = g.standard_normal((n,) + tuple(model.input_shape[1:])).astype(np.float32)
  y = g.standard_normal((n, 2)).astype(np.float32)
  ctx.fault("real_fit")
  ok, _ = guard(ctx, "scheduler|real-fit", lambda: model.fit(
      x, y, batch_size=2, epochs=op["epochs"], verbose=0, shuffle=False,
      callbacks=[cb, rec]), always=True)
  state["called"] = True
  want = ("E" + "b" * op["steps"]) * op["epochs"]
  if ok and "".join(rec.events) != want:
    raise HarnessError("event source model differs from Keras: %r vs %r" % (
        "".join(rec.events), want))
  if ok:
    ctx.probe("real_fit_event_sequence_matches_simulated_source")
    state["steps_done"] = state.get("steps_done", 0) + op["steps"] * op["epochs"]
    state["epochs_done"] = state.get("epochs_done", 0) + op["epochs"]


def gen_qdesc(rng, allow_noknob=True):
  cls = rng.pick(["quantized_bits", "quantized_bits", "quantized_relu",
                  "quantized_po2", "quantized_linear"] +
                 (["binary", "ternary"] if allow_noknob else []))
  kw = {}
  if cls in ("quantized_bits", "quantized_linear"):
    kw = {"bits": rng.pick([2, 4, 8]), "integer": rng.pick([0, 1])}
    if cls == "quantized_bits" and rng.chance(0.5):
      kw["alpha"] = rng.pick([1.0, "auto", "auto_po2"])
  elif cls == "quantized_relu":
    kw = {"bits": rng.pick([2, 4, 8]), "integer": rng.pick([0, 1])}
  elif cls == "quantized_po2":
    kw = {"bits": rng.pick([3, 4])}
  if rng.chance(0.3) and cls not in ("binary", "ternary"):
    kw["qnoise_factor"] = rng.pick([0.0, 0.5, 1.0])
  return {"cls": cls, "kw": kw}


def gen_act(rng):
  cls = rng.pick(["quantized_relu", "quantized_relu", "quantized_bits",
                  "quantized_relu_po2", "quantized_tanh"])
  kw = {"bits": rng.pick([3, 4, 8])}
  return {"cls": cls, "kw": kw}


def gen_model(rng):
  layers = []
  n = rng.randrange(1, 4)
  have = []
  for i in range(n):
    t = rng.wpick([("qdense", 4), ("qdense_act", 2), ("qact", 2), ("qconv", 1),
                   ("plain", 1), ("qdw", 0.6), ("qsep", 0.6), ("qpool", 0.4),
                   ("qrnn", 1.2), ("qbidir", 0.4), ("qbn", 0.5),
                   ("nested", 0.6)])
    first = layers[0]["t"] if layers else None
    if t in ("qconv", "qdw", "qsep", "qpool") and i > 0 and first not in (
        "qconv", "qdw", "qsep", "qpool"):
      t = "qdense"
    if t in ("qrnn", "qbidir") and i > 0 and first not in ("qrnn", "qbidir"):
      t = "qdense"
    l = {"t": t}
    if t in ("qrnn", "qbidir"):
      # (quantized_linear kernel quantizers are avoided here: their max() is
      # a tensor, the Clip constraint built from it does not survive the
      # config copy Bidirectional makes, and training then fails in the
      # constraint - unrelated to the noise schedule)
      l["norecl"] = True
      l["rnn"] = rng.pick(["QSimpleRNN", "QLSTM"])
      l["rq"] = gen_qdesc(rng, allow_noknob=False)
      while l["rq"]["cls"] == "quantized_linear":
        l["rq"] = gen_qdesc(rng, allow_noknob=False)
      if rng.chance(0.4):
        l["sq"] = gen_qdesc(rng, allow_noknob=False)
      if rng.chance(0.35):
        # quantizers with the knob as (recurrent) activation
        l["act"] = {"cls": rng.pick(["quantized_bits", "quantized_relu"]),
                    "kw": {"bits": rng.pick([4, 6]), "integer": 1}}
      if rng.chance(0.3):
        l["ract"] = {"cls": "quantized_relu", "kw": {"bits": 4, "integer": 1}}
      if t == "qrnn" and rng.chance(0.4):
        l["wrap"] = rng.pick(["keras_rnn_cell", "timedistributed",
                              "keras_bidirectional"])
    if t == "qsep":
      l["pq"] = gen_qdesc(rng)
    if t == "qpool" and rng.chance(0.5):
      l["aq"] = gen_act(rng)
    if t == "qpool":
      # the average quantizer is applied to the scalar 1/pool_area: a plain
      # fixed-point format (data-dependent scales need a tensor)
      l["kq"] = {"cls": "quantized_bits", "kw": {"bits": rng.pick([6, 8]),
                                                 "integer": 0}}
      if rng.chance(0.3):
        l["kq"]["kw"]["qnoise_factor"] = 0.5
      layers.append(l)
      continue
    if t == "nested":
      l["aq"] = gen_act(rng)
    if t in ("qdense", "qdense_act", "qconv", "qdw", "qsep", "qrnn",
             "qbidir", "nested"):
      if have and rng.chance(0.2):
        l["kq"] = {"share": rng.pick(have)}   # (never a quantized_linear)
      else:
        l["kq"] = gen_qdesc(rng)
        while l.get("norecl") and l["kq"]["cls"] == "quantized_linear":
          l["kq"] = gen_qdesc(rng)
        if l["kq"]["cls"] != "quantized_linear":
          # quantized_linear.max() reads the scale tensor left by the previous
          # layer's graph; sharing one object between layers is unsupported
          have.append([i, "k"])
      if rng.chance(0.6):
        l["bq"] = gen_qdesc(rng)
        while l.get("norecl") and l["bq"]["cls"] == "quantized_linear":
          l["bq"] = gen_qdesc(rng)
    if t == "qdense_act":
      l["aq"] = gen_act(rng)
    if t == "qact":
      l["aq"] = gen_act(rng)
    layers.append(l)
  # json: share keys as lists -> tuple at build
  return {"layers": layers}


def gen_cb(rng):
  start = rng.randrange(0, 12)
  finish = start + rng.pick([0, 0, 1, 2, 3, 5, 8, 13, 20])
  finish = min(finish, 40)
  return {"start": start, "finish": finish,
          "freq_type": rng.pick(["step", "epoch"]),
          "update_freq": rng.pick([1, 1, 2, 3, 5]),
          "initial": rng.pick([0, 0, 0, 1, 3, 7, 20]),
          "exponent": rng.pick([0.5, 1.0, 2.0, 3.0, 3.0, 0.0]),
          "use_ste": rng.chance(0.7)}


def gen_t(rng, real=False):
  world = gen_model(rng)
  ops = []
  nfits = rng.wpick([(1, 4), (2, 3), (3, 2)])
  if rng.chance(0.3):
    ops.append({"k": "PREDICT"})
  for j in range(nfits):
    epochs = rng.randrange(1, 7)
    steps = rng.randrange(1, 9)
    op = {"k": "REALFIT" if (real and j == 0) else "FIT", "epochs": epochs,
          "steps": steps, "cb": gen_cb(rng), "dseed": rng.subseed()}
    if op["k"] == "REALFIT":
      op["epochs"] = min(epochs, 3)
      op["steps"] = min(steps, 4)
    if j > 0:
      r = rng.random()
      if r < 0.35:
        op["new_cb"] = True
        op["resume"] = True
      elif r < 0.6:
        op["new_cb"] = True
    if op["k"] == "FIT" and rng.chance(0.3):
      op["interrupt"] = [rng.randrange(epochs), rng.randrange(steps)]
    if op["k"] == "FIT" and rng.chance(0.15):
      op["dup_train_begin"] = True
    ops.append(op)
    if rng.chance(0.5):
      ops.append({"k": "PREDICT"})
  return {"engine": "T", "seed": rng.subseed(), "world": world, "ops": ops}


def directed_t():
  out = []
  qb = {"cls": "quantized_bits", "kw": {"bits": 4}}
  models = {
      "dense_bits": {"layers": [{"t": "qdense", "kq": qb, "bq": qb}]},
      "dense_linear": {"layers": [{"t": "qdense", "kq": {
          "cls": "quantized_linear", "kw": {"bits": 4}}}]},
      "dense_actarg": {"layers": [{"t": "qdense_act", "kq": qb, "aq": {
          "cls": "quantized_relu", "kw": {"bits": 4}}}]},
      "qact": {"layers": [{"t": "qdense", "kq": qb},
                          {"t": "qact", "aq": {"cls": "quantized_relu",
                                               "kw": {"bits": 4}}}]},
      "shared": {"layers": [{"t": "qdense", "kq": qb},
                            {"t": "qdense", "kq": {"share": [0, "k"]}}]},
      "no_knob": {"layers": [{"t": "qdense", "kq": {"cls": "binary",
                                                      "kw": {}}}]},
      "po2_conv": {"layers": [{"t": "qconv", "kq": {"cls": "quantized_po2",
                                                     "kw": {"bits": 4}}}]},
      "rnn": {"layers": [{"t": "qrnn", "rnn": "QSimpleRNN", "kq": qb, "rq": qb,
                          "bq": qb, "sq": qb}]},
      "lstm_bidir": {"layers": [{"t": "qbidir", "rnn": "QLSTM", "kq": qb,
                                 "rq": qb, "bq": qb}]},
      "sep_dw_pool": {"layers": [{"t": "qsep", "kq": qb, "pq": qb, "bq": qb},
                                 {"t": "qdw", "kq": qb, "bq": qb},
                                 {"t": "qpool", "kq": qb, "aq": {
                                     "cls": "quantized_relu", "kw": {"bits": 4}}}]},
      "dense_bn": {"layers": [{"t": "qdense", "kq": qb}, {"t": "qbn"}]},
      "nested": {"layers": [{"t": "qdense", "kq": qb},
                            {"t": "nested", "kq": qb, "bq": qb, "aq": {
                                "cls": "quantized_relu", "kw": {"bits": 4}}}]},
      "keras_rnn_cell": {"layers": [{"t": "qrnn", "rnn": "QLSTM", "kq": qb,
                                     "rq": qb, "bq": qb,
                                     "wrap": "keras_rnn_cell"}]},
      "timedistributed": {"layers": [{"t": "qrnn", "kq": qb, "bq": qb,
                                      "wrap": "timedistributed"}]},
      "keras_bidirectional": {"layers": [{"t": "qrnn", "rnn": "QLSTM",
                                          "kq": qb, "rq": qb, "bq": qb,
                                          "wrap": "keras_bidirectional"}]},
      "rnn_activations": {"layers": [{"t": "qrnn", "rnn": "QLSTM", "kq": qb,
                                      "rq": qb, "bq": qb, "act": {
                                          "cls": "quantized_bits", "kw": {
                                              "bits": 6, "integer": 1}},
                                      "ract": {"cls": "quantized_relu", "kw": {
                                          "bits": 4, "integer": 1}}}]},
      "bidir_activations": {"layers": [{"t": "qbidir", "rnn": "QLSTM",
                                        "kq": qb, "rq": qb, "bq": qb, "act": {
                                            "cls": "quantized_bits", "kw": {
                                                "bits": 6, "integer": 1}}}]},
  }
  cbs = [
      {"start": 2, "finish": 6, "freq_type": "step", "update_freq": 1,
       "initial": 0, "exponent": 3.0},
      {"start": 1, "finish": 4, "freq_type": "epoch", "update_freq": 1,
       "initial": 0, "exponent": 2.0},
      {"start": 3, "finish": 3, "freq_type": "step", "update_freq": 2,
       "initial": 0, "exponent": 1.0},
      {"start": 2, "finish": 9, "freq_type": "step", "update_freq": 3,
       "initial": 1, "exponent": 0.5},
  ]
  for mname, m in sorted(models.items()):
    for ci, cb in enumerate(cbs):
      for prebuilt in (False, True):
        ops = ([{"k": "PREDICT"}] if prebuilt else []) + [
            {"k": "FIT", "epochs": 1, "steps": 2, "cb": cb},
            {"k": "PREDICT"},
            {"k": "FIT", "epochs": 3, "steps": 4, "cb": cb},
            {"k": "PREDICT"},
            {"k": "FIT", "epochs": 2, "steps": 3, "cb": cb},
            {"k": "PREDICT"},
            {"k": "FIT", "epochs": 2, "steps": 3, "cb": cb, "new_cb": True,
             "resume": True},
        ]
        out.append({"engine": "T", "label": "directed:t:%s:cb%d:%s" % (
            mname, ci, "prebuilt" if prebuilt else "fresh"), "seed": 1,
                    "world": m, "ops": ops})
  for mname in ("dense_bits", "qact", "dense_linear"):
    out.append({"engine": "T", "label": "directed:t:real:%s" % mname, "seed": 1,
                "world": models[mname], "ops": [
                    {"k": "REALFIT", "epochs": 2, "steps": 3, "cb": cbs[0],
                     "dseed": 1},
                    {"k": "FIT", "epochs": 1, "steps": 3, "cb": cbs[0]}]})
  return out


# ---------------------------------------------------------------------------
ENGINE = "Q+T"
LEVEL = "exploration"
RULE = ("two scenario families. Q: 1-3 knob-bearing quantizers + seeded ops "
        "(CALL / QNOISE as float|const|var / BUILDV / TRACE / TRAINABLE / "
        "RESTART) in every order, plus a deterministic sweep {class x option} x "
        "{float, variable-then-trace, trace-then-variable} x 5 factors. T: a "
        "generated model (QDense/QConv2D/QActivation, shared and knob-less "
        "quantizers) + 1-3 fits (<=6 epochs x <=8 steps) as callback-event "
        "sequences with interrupts, repeated fits with one callback, resumes "
        "with a fresh callback, duplicated train_begin; one real model.fit per "
        "sampled scenario. non-trivial = a fault fired and an oracle check ran "
        "afterwards; distinct = distinct (op-kind sequence, fired fault kinds, "
        "world bucket)")
REAL = ["qkeras.quantizers qnoise paths", "BaseQuantizer.build/"
        "update_qnoise_factor", "qkeras.callbacks.QNoiseScheduler",
        "QDense/QConv2D/QActivation", "tf_keras Model.fit (REALFIT and LOSSFIT ops)"]
STUB = ["Keras training loop in FIT ops (callback events emitted by the "
        "simulator's step clock; weights not trained)", "tf.random.uniform seam"]


def execute(scn, known=(), stop=True):
  if scn.get("engine") == "T":
    return execute_t(scn, known, stop)
  return Q.execute("C07", scn, known, {"C07": QHalf}, stop)


def generate(rng):
  r = rng.random()
  if r < 0.55:
    return gen_q(rng)
  if rng.chance(0.06):
    return gen_loss(rng)
  return gen_t(rng, real=rng.chance(0.08))


def gen_loss(rng):
  """A small dense world (lazily built or functional) under the real training
  loop with the loss probe."""
  def wq():
    c = rng.pick(["quantized_bits", "quantized_bits", "quantized_po2",
                  "quantized_linear"])
    kw = {"bits": rng.pick([2, 3, 4])}
    if c != "quantized_po2":
      kw["alpha"] = 1.0
      kw["integer"] = rng.pick([0, 1])
    return {"cls": c, "kw": kw}

  def aq():
    c = rng.pick(["quantized_relu", "quantized_bits", "quantized_relu_po2",
                  "quantized_hswish"])
    kw = {"bits": rng.pick([3, 4])}
    if c in ("quantized_relu", "quantized_bits", "quantized_hswish"):
      kw["integer"] = 1
    if c == "quantized_bits":
      kw["alpha"] = 1.0
    return {"cls": c, "kw": kw}
  layers = []
  for _ in range(rng.randrange(1, 3)):
    t = rng.pick(["qdense", "qdense_act", "qact"])
    l = {"t": t}
    if t != "qact":
      l["kq"] = wq()
      if rng.chance(0.5):
        l["bq"] = wq()
    if t != "qdense":
      l["aq"] = aq()
    layers.append(l)
  cb = gen_cb(rng)
  cb["start"] = rng.randrange(0, 3)
  cb["finish"] = cb["start"] + rng.pick([0, 1, 2, 3])
  cb["initial"] = rng.pick([0, 0, 1])
  cb["update_freq"] = rng.pick([1, 1, 2])
  return {"engine": "T", "seed": rng.subseed(),
          "world": {"layers": layers, "lazy": rng.chance(0.6)},
          "ops": [{"k": "LOSSFIT", "epochs": rng.randrange(3, 7), "cb": cb,
                   "dseed": rng.subseed()}]}


def directed_loss():
  """Lazily built and functional models under the real training loop with the
  loss probe."""
  out = []
  qb = {"cls": "quantized_bits", "kw": {"bits": 3, "integer": 0, "alpha": 1.0}}
  worlds = {
      "bits": [{"t": "qdense", "kq": qb, "bq": qb}],
      "relu-act": [{"t": "qdense_act", "kq": qb, "aq": {
          "cls": "quantized_relu", "kw": {"bits": 3, "integer": 1}}}],
      "qact-po2": [{"t": "qdense", "kq": {"cls": "quantized_po2",
                                          "kw": {"bits": 3}}},
                   {"t": "qact", "aq": {"cls": "quantized_relu_po2",
                                        "kw": {"bits": 3}}}],
      "linear": [{"t": "qdense", "kq": {"cls": "quantized_linear",
                                        "kw": {"bits": 3, "alpha": 1.0}}}],
      "hswish": [{"t": "qdense", "kq": qb},
                 {"t": "qact", "aq": {"cls": "quantized_hswish",
                                      "kw": {"bits": 4, "integer": 1}}}],
  }
  cbs = [{"start": 1, "finish": 3, "freq_type": "step", "update_freq": 1,
          "initial": 0, "exponent": 2.0},
         {"start": 0, "finish": 2, "freq_type": "epoch", "update_freq": 1,
          "initial": 0, "exponent": 1.0},
         {"start": 1, "finish": 4, "freq_type": "step", "update_freq": 2,
          "initial": 0, "exponent": 3.0, "use_ste": False}]
  for name, layers in sorted(worlds.items()):
    for lazy in (True, False):
      for ci, cb in enumerate(cbs):
        out.append({"engine": "T", "label": "directed:loss-probe:%s:%s:cb%d" % (
            name, "lazy" if lazy else "functional", ci), "seed": 1,
                    "world": {"layers": layers, "lazy": lazy},
                    "ops": [{"k": "LOSSFIT", "epochs": 6, "cb": cb,
                             "dseed": 5}]})
  return out


def directed():
  return directed_q() + directed_t() + directed_loss()


def simplify(scn):
  if scn.get("engine") == "T":
    for i, op in enumerate(scn["ops"]):
      if op["k"] in ("FIT", "REALFIT"):
        for key, val in (("epochs", 1), ("steps", 1)):
          if op[key] > val:
            c = json.loads(json.dumps(scn))
            c["ops"][i][key] = op[key] - 1
            c["ops"][i].pop("interrupt", None)
            yield c
        for key in ("interrupt", "dup_train_begin"):
          if key in op:
            c = json.loads(json.dumps(scn))
            del c["ops"][i][key]
            yield c
        if op["k"] == "REALFIT":
          c = json.loads(json.dumps(scn))
          c["ops"][i]["k"] = "FIT"
          yield c
    ls = scn["world"]["layers"]
    if len(ls) > 1:
      for i in range(len(ls)):
        if any(isinstance(v, dict) and "share" in v for l in ls for v in l.values()):
          break
        c = json.loads(json.dumps(scn))
        del c["world"]["layers"][i]
        yield c
    return
  qs = scn["world"]["quantizers"]
  for i, s in enumerate(qs):
    for key in sorted(s["kw"]):
      c = json.loads(json.dumps(scn))
      del c["world"]["quantizers"][i]["kw"][key]
      yield c


def bucket(scn):
  if scn.get("engine") == "T":
    return ["T", [(l["t"], sorted((l.get(k) or {}).get("cls", "share")
                                  for k in ("kq", "bq", "aq") if l.get(k)))
                  for l in scn["world"]["layers"]],
            [(o.get("cb") or {}).get("freq_type") for o in scn["ops"]]]
  return ["Q", [(s["cls"], sorted(s["kw"])) for s in scn["world"]["quantizers"]]]
