"""Seams: every source of nondeterminism / fault the properties depend on.

* uniform random source  -> UniformSeam (attribute patch of tf.random.uniform)
* learning phase         -> set_phase (public K.set_learning_phase)
* disk                   -> SimFile (python file object under h5py's fileobj driver)
* TF runtime             -> tf_setup(): 1 intra / 1 inter thread, op determinism
"""
import errno
import io
import os

import numpy as np

from .core import InjectedFault

_TF = None


def tf_setup():
  """Import TF once, pin its thread pools, enable op determinism."""
  global _TF
  if _TF is not None:
    return _TF
  os.environ.setdefault("TF_USE_LEGACY_KERAS", "1")
  os.environ.setdefault("PROTOCOL_BUFFERS_PYTHON_IMPLEMENTATION", "python")
  os.environ.setdefault("TF_CPP_MIN_LOG_LEVEL", "3")
  os.environ.setdefault("CUDA_VISIBLE_DEVICES", "-1")
  import tensorflow as tf
  tf.config.threading.set_intra_op_parallelism_threads(1)
  tf.config.threading.set_inter_op_parallelism_threads(1)
  try:
    tf.config.experimental.enable_op_determinism()
  except Exception:  # pragma: no cover
    pass
  tf.get_logger().setLevel("ERROR")
  import logging
  logging.getLogger("tensorflow").setLevel(logging.ERROR)
  try:
    import absl.logging
    absl.logging.set_verbosity(absl.logging.ERROR)
  except Exception:  # pragma: no cover
    pass
  _TF = tf
  return tf


def fresh_session(seed):
  """Reset Keras global state (uid counters, learning phase) and the TF seed."""
  tf = tf_setup()
  import tf_keras.backend as K
  K.clear_session()
  tf.random.set_seed(seed & 0x7FFFFFFF)
  np.random.seed(seed & 0x7FFFFFFF)
  K.set_learning_phase(0)


def set_phase(p):
  import tf_keras.backend as K
  K.set_learning_phase(int(p))


# ---------------------------------------------------------------------------
ONE_MINUS = float(np.float32(1.0) - np.float32(2.0 ** -24))


class UniformSeam:
  """Owns tf.random.uniform while installed.

  mode: dict
    {"m": "prng", "seed": s}      seeded numpy draws
    {"m": "zero"}                 every element = minval
    {"m": "one_minus"}            every element = minval + (maxval-minval)(1-2^-24)
    {"m": "strata", "k": k, "K": K}  every element = (k+1/2)/K
    {"m": "const", "u": u}        every element = u
  fail_next: raise InjectedFault on the next draw (once).
  """

  def __init__(self):
    self.mode = {"m": "prng", "seed": 0}
    self.fail_next = False
    self.draws = 0
    self.elements = 0
    self._rs = None
    self._orig = None
    self._mod = None
    self.reseed()

  def set_mode(self, mode):
    self.mode = dict(mode)
    self.reseed()

  def reseed(self, extra=0):
    if self.mode["m"] == "prng":
      self._rs = np.random.Generator(
          np.random.PCG64([int(self.mode.get("seed", 0)), int(extra)]))
    else:
      self._rs = None

  def _u(self, shape):
    m = self.mode["m"]
    if m == "prng":
      return self._rs.random(size=shape, dtype=np.float32)
    if m == "zero":
      return np.zeros(shape, np.float32)
    if m == "one_minus":
      return np.full(shape, ONE_MINUS, np.float32)
    if m == "strata":
      return np.full(shape, (self.mode["k"] + 0.5) / self.mode["K"], np.float32)
    if m == "const":
      return np.full(shape, self.mode["u"], np.float32)
    raise ValueError(m)

  def __call__(self, shape, minval=0, maxval=None, dtype=None, seed=None,
               name=None):
    tf = tf_setup()
    if self.fail_next:
      self.fail_next = False
      raise InjectedFault("uniform draw failed (injected)")
    if dtype is None:
      dtype = tf.float32
    if tf.is_tensor(shape):
      sh = tuple(int(v) for v in np.asarray(tf.get_static_value(shape)
                                            if not tf.executing_eagerly()
                                            else shape.numpy()).reshape(-1))
    else:
      sh = tuple(int(v) for v in np.asarray(shape).reshape(-1))
    self.draws += 1
    self.elements += int(np.prod(sh)) if sh else 1
    u = tf.constant(self._u(sh), dtype=tf.float32)
    if maxval is None:
      maxval = 1.0
    lo = tf.cast(minval, tf.float32)
    hi = tf.cast(maxval, tf.float32)
    out = lo + (hi - lo) * u
    # a real uniform never returns maxval; keep that guarantee under rounding
    out = tf.where(tf.logical_and(out >= hi, hi > lo),
                   tf.math.nextafter(hi + tf.zeros_like(out),
                                     lo + tf.zeros_like(out)), out)
    return tf.cast(out, dtype)

  def install(self):
    tf = tf_setup()
    import qkeras.quantizers as qq
    self._mod = qq.tf.random
    if self._orig is None:
      self._orig = self._mod.uniform
    self._mod.uniform = self
    # tensorflow.random and tensorflow.compat.v2.random may be different
    # module objects exposing the same function; patch both.
    self._mod2 = tf.random
    self._orig2 = getattr(self, "_orig2", None) or self._mod2.uniform
    if self._mod2 is not self._mod:
      self._mod2.uniform = self
    return self

  def uninstall(self):
    if self._orig is not None:
      self._mod.uniform = self._orig
      if self._mod2 is not self._mod:
        self._mod2.uniform = self._orig2


# ---------------------------------------------------------------------------
class SimDisk:
  """Durable bytes + volatile (unflushed) writes of one simulated file."""

  def __init__(self):
    self.durable = bytearray()
    self.writes = 0
    self.flushes = 0


class SimFile(io.RawIOBase):
  """File object handed to h5py.File(fileobj).  Faults are scheduled by the
  simulator: fail_at_write=n raises OSError(errno) on the n-th write (1-based),
  short_at_write=n writes only half of the n-th buffer (and reports it, as the
  OS would), crash_at_write=n raises InjectedFault and keeps only what was
  flushed (plus, if keep_unflushed is set, the unflushed prefix)."""

  def __init__(self, data=b"", fail_at_write=None, err=errno.ENOSPC,
               short_at_write=None, crash_at_write=None, fail_at_read=None,
               keep_unflushed=False):
    super().__init__()
    self.buf = bytearray(data)
    self.pos = 0
    self.writes = 0
    self.reads = 0
    self.flushes = 0
    self.flushed = bytes(data)
    self.fail_at_write = fail_at_write
    self.err = err
    self.short_at_write = short_at_write
    self.crash_at_write = crash_at_write
    self.fail_at_read = fail_at_read
    self.keep_unflushed = keep_unflushed
    self.fired = []

  def readable(self):
    return True

  def writable(self):
    return True

  def seekable(self):
    return True

  def seek(self, off, whence=0):
    if whence == 0:
      self.pos = off
    elif whence == 1:
      self.pos += off
    else:
      self.pos = len(self.buf) + off
    return self.pos

  def tell(self):
    return self.pos

  def truncate(self, size=None):
    size = self.pos if size is None else size
    if size < len(self.buf):
      del self.buf[size:]
    else:
      self.buf.extend(b"\0" * (size - len(self.buf)))
    return size

  def readinto(self, b):
    self.reads += 1
    if self.fail_at_read is not None and self.reads == self.fail_at_read:
      self.fired.append("read_eio")
      raise OSError(errno.EIO, "injected read error")
    n = max(0, min(len(b), len(self.buf) - self.pos))
    b[:n] = self.buf[self.pos:self.pos + n]
    self.pos += n
    return n

  def write(self, b):
    self.writes += 1
    b = bytes(b)
    if self.fail_at_write is not None and self.writes == self.fail_at_write:
      self.fired.append("write_err")
      raise OSError(self.err, "injected write error")
    if self.crash_at_write is not None and self.writes == self.crash_at_write:
      self.fired.append("crash")
      raise InjectedFault("crash during write %d" % self.writes)
    if self.short_at_write is not None and self.writes == self.short_at_write:
      self.fired.append("short_write")
      b = b[:max(1, len(b) // 2)]
    end = self.pos + len(b)
    if end > len(self.buf):
      self.buf.extend(b"\0" * (end - len(self.buf)))
    self.buf[self.pos:end] = b
    self.pos = end
    return len(b)

  def flush(self):
    self.flushes += 1
    self.flushed = bytes(self.buf)

  def surviving(self):
    """Bytes that survive a crash now."""
    return bytes(self.buf) if self.keep_unflushed else self.flushed
