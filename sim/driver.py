"""Batch driver (parent process; never imports TensorFlow).

Starts up to 16 worker processes, hands out run indices by stride, collects
their JSON lines, re-executes every new violation's minimised replay file in a
fresh interpreter, matches known findings, writes the evidence file and prints
the verdict lines.

exit 0  property held on everything explored (KNOWN-FINDING lines allowed)
exit 1  VIOLATION property=<id> replay=<path>   (replayed in a fresh process)
exit 2  harness error (never reported as a pass or as a violation)
"""
import argparse
import json
import os
import shutil
import subprocess
import sys
import tempfile
import time

HERE = os.path.dirname(os.path.dirname(os.path.abspath(__file__)))
PY = os.environ.get("VERIF_PYTHON", "/venv/bin/python")
WORKER = os.path.join(HERE, "worker_main.py")
KNOWN_FILE = os.path.join(HERE, "known_findings.json")
EVIDENCE_DIR = os.path.join(HERE, "evidence")

# (random runs, wall budget s) per tier; directed scenarios are always run.
TIERS = {
    "C04": {"quick": (2500, 100), "thorough": (60000, 1200)},
    "C05": {"quick": (2500, 100), "thorough": (60000, 1200)},
    "C07": {"quick": (900, 120), "thorough": (40000, 1200)},
    "C08": {"quick": (1500, 110), "thorough": (40000, 1200)},
    "C09": {"quick": (2500, 100), "thorough": (60000, 1200)},
    "C13": {"quick": (90, 130), "thorough": (6000, 1500)},
    "C14": {"quick": (50, 100), "thorough": (5000, 1500)},
    "C15": {"quick": (350, 100), "thorough": (15000, 1500)},
    "C20": {"quick": (100, 90), "thorough": (6000, 1500)},
}


def load_known(prop):
  if not os.path.exists(KNOWN_FILE):
    return {}, []
  with open(KNOWN_FILE) as f:
    doc = json.load(f)
  known = {}
  fixed = []
  for e in doc.get("findings", []):
    if e.get("property") != prop:
      continue
    if e.get("status") == "known":
      known[e["signature"]] = e
    else:
      fixed.append(e)
  return known, fixed


def worker_env():
  env = dict(os.environ)
  env["TF_USE_LEGACY_KERAS"] = "1"
  env["PROTOCOL_BUFFERS_PYTHON_IMPLEMENTATION"] = "python"
  env["TF_CPP_MIN_LOG_LEVEL"] = "3"
  env["CUDA_VISIBLE_DEVICES"] = "-1"
  env["PYTHONDONTWRITEBYTECODE"] = "1"
  env["PYTHONHASHSEED"] = "0"
  env["OMP_NUM_THREADS"] = "1"
  env["TF_NUM_INTRAOP_THREADS"] = "1"
  env["TF_NUM_INTEROP_THREADS"] = "1"
  env["QKERAS_VERIF"] = "1"
  env["PYTHONWARNINGS"] = "ignore"
  return env


def replay_fresh(prop, path, known_sigs):
  """Re-execute a replay file in a fresh interpreter."""
  cmd = [PY, WORKER, "replay", "--prop", prop, "--file", path,
         "--known", json.dumps(sorted(known_sigs))]
  try:
    p = subprocess.run(cmd, env=worker_env(), stdout=subprocess.PIPE,
                       stderr=subprocess.PIPE, timeout=900)
  except subprocess.TimeoutExpired:
    return None, "replay timed out"
  out = p.stdout.decode(errors="replace").strip().splitlines()
  for line in reversed(out):
    if line.startswith("{"):
      try:
        return json.loads(line), None
      except ValueError:
        pass
  return None, "replay produced no result (exit %s): %s" % (
      p.returncode, p.stderr.decode(errors="replace")[-1500:])


def main(argv=None):
  ap = argparse.ArgumentParser()
  ap.add_argument("prop")
  ap.add_argument("--tier", default=os.environ.get("VERIF_TIER", "quick"))
  ap.add_argument("--replay", default=None)
  ap.add_argument("--workers", type=int,
                  default=int(os.environ.get("VERIF_WORKERS", "0") or 0))
  ap.add_argument("--runs", type=int, default=None)
  ap.add_argument("--budget", type=float, default=None)
  a = ap.parse_args(argv)
  prop = a.prop
  if prop not in TIERS:
    print("unknown or unclaimed property %s" % prop)
    return 2
  tier = a.tier if a.tier in ("quick", "thorough") else "quick"
  seed = int(os.environ.get("VERIF_SEED", "0") or 0)
  known, _fixed = load_known(prop)
  known_sigs = set(known)

  if a.replay:
    res, err = replay_fresh(prop, a.replay, known_sigs)
    if res is None:
      print("HARNESS-ERROR %s" % err)
      return 2
    print(json.dumps(res, indent=1))
    if res["got"]:
      print("VIOLATION property=%s replay=%s" % (prop, a.replay))
      return 1
    for s in res.get("known", []):
      print("KNOWN-FINDING: property=%s %s" % (prop, known[s]["what"]))
    print("replay: no violation")
    return 0

  nruns, budget = TIERS[prop][tier]
  if a.runs is not None:
    nruns = a.runs
  if os.environ.get("VERIF_BUDGET_S"):
    budget = float(os.environ["VERIF_BUDGET_S"])
  if a.budget is not None:
    budget = a.budget
  ncpu = os.cpu_count() or 4
  W = a.workers or min(16, ncpu)
  t0 = time.time()
  tmp = tempfile.mkdtemp(prefix="verif-%s-" % prop,
                         dir=os.environ.get("VERIF_TMP") or None)
  procs = []
  try:
    for w in range(W):
      out = os.path.join(tmp, "w%d.jsonl" % w)
      cmd = [PY, WORKER, "run", "--prop", prop, "--seed", str(seed),
             "--wid", str(w), "--nworkers", str(W), "--nruns", str(nruns),
             "--budget", str(budget), "--out", out,
             "--known", json.dumps(sorted(known_sigs))]
      err = open(os.path.join(tmp, "w%d.err" % w), "w")
      procs.append((subprocess.Popen(cmd, env=worker_env(), stdout=err,
                                     stderr=err, cwd=HERE), out, err))
    deadline = t0 + budget * 3 + 600
    for p, _, _ in procs:
      left = max(1.0, deadline - time.time())
      try:
        p.wait(timeout=left)
      except subprocess.TimeoutExpired:
        p.kill()
        p.wait()
    return finish(prop, tier, seed, W, procs, tmp, known, t0, nruns, budget)
  finally:
    for p, _, err in procs:
      if p.poll() is None:
        p.kill()
      err.close()
    shutil.rmtree(tmp, ignore_errors=True)


def finish(prop, tier, seed, W, procs, tmp, known, t0, nruns, budget):
  recs = []
  dones = []
  herrs = []
  for wi, (p, out, _) in enumerate(procs):
    got_done = False
    if os.path.exists(out):
      with open(out) as f:
        for line in f:
          line = line.strip()
          if not line:
            continue
          try:
            r = json.loads(line)
          except ValueError:
            continue
          if r.get("done"):
            dones.append(r)
            got_done = True
          elif "harness_error" in r:
            herrs.append(r)
          else:
            recs.append(r)
    if not got_done:
      tail = ""
      try:
        with open(os.path.join(tmp, "w%d.err" % wi)) as f:
          txt = f.read()
        # the reason first (library warnings printed afterwards would push it
        # out of a plain tail), then the tail
        at = max(txt.rfind("Traceback (most recent call last)"),
                 txt.rfind("Fatal Python error"), txt.rfind("Timeout ("))
        tail = (txt[at:at + 2500] + "\n...\n" if at >= 0 else "") + \
            txt[-800:]
      except OSError:
        pass
      herrs.append({"idx": -1, "harness_error":
                    "worker %d died (exit %s) without finishing:\n%s" % (
                        wi, p.returncode, tail)})

  recs.sort(key=lambda r: r["idx"])
  faults, probes = {}, {}
  checks = after = 0
  nontrivial = set()
  known_seen = {}
  new_viol = {}
  for r in recs:
    for k, v in r["faults"].items():
      faults[k] = faults.get(k, 0) + v
    for k, v in r["probes"].items():
      probes[k] = probes.get(k, 0) + v
    checks += r["checks"]
    after += r["checks_after_fault"]
    if r["faults"] and r["checks_after_fault"] > 0:
      nontrivial.add(r["rsig"])
    for s in r["known"]:
      known_seen.setdefault(s, r.get("known_msgs", {}).get(s, ""))
    for v in r["violations"]:
      e = new_viol.setdefault(v["sig"], {"count": 0, "replay": None,
                                         "msg": v["msg"], "cands": []})
      e["count"] += 1
      if v.get("replay"):
        e["cands"].append((v["replay"], v.get("min_ops"), v["msg"]))
        if v.get("replay_orig"):
          e["origs"] = e.get("origs", []) + [
              (v["replay_orig"], v.get("orig_ops"), v["msg"])]
        if e["replay"] is None:
          e["replay"] = v["replay"]
          e["min_ops"] = v.get("min_ops")

  # confirm each new violation in a fresh interpreter
  confirmed, unconfirmed = [], []
  for sig, e in sorted(new_viol.items()):
    if not e["replay"]:
      unconfirmed.append((sig, "no replay file written"))
      continue
    # several workers may have met the same violation; a run whose failure
    # depended on state left by EARLIER runs of its worker (process-global
    # state introduced by the code under test) does not replay alone, so
    # every distinct candidate is tried until one does
    why = None
    done = set()
    for path, nmin, msg in e["cands"][:6] + e.get("origs", [])[:6]:
      if path in done:
        continue
      done.add(path)
      res, err = replay_fresh(prop, path, set(known))
      if res is None:
        why = err
      elif sig in res["got"]:
        e["replay"], e["min_ops"], e["msg"] = path, nmin, msg
        why = None
        confirmed.append((sig, e))
        break
      else:
        why = "replay in a fresh interpreter gave %r" % (res["got"],)
    else:
      unconfirmed.append((sig, why))

  meta = dones[0]["meta"] if dones else {}
  wall = time.time() - t0
  exec_wall = sum(r.get("wall", 0) for r in recs)
  sim_steps = sum(r["nops"] for r in recs)
  samples = [r["sample"] for r in recs if "sample" in r][:3]
  if not samples:
    samples = [{"note": "no run completed"}]
  capped = any(d.get("capped") for d in dones)
  ndirected = dones[0]["ndirected"] if dones else 0
  evidence = {
      "property_id": prop,
      "tier": tier,
      "seed": seed,
      "level": meta.get("level", "exploration"),
      "coverage": {
          "evaluations": len(recs),
          "distinct_nontrivial": len(nontrivial),
          "rule": meta.get("rule", ""),
          "samples": samples,
          "exhaustive": False,
          "directed_scenarios": ndirected,
          "random_scenarios": max(0, len(recs) - min(ndirected, len(recs))),
          "sim_steps": sim_steps,
          "oracle_checks": checks,
          "oracle_checks_after_a_fault": after,
          "faults_fired": dict(sorted(faults.items())),
          "probes": dict(sorted(probes.items())),
          "runs_per_hour": int(len(recs) / wall * 3600) if wall > 0 else 0,
          "seeds_per_hour": int(len(recs) / wall * 3600) if wall > 0 else 0,
          "simulated_time": "%d simulated steps (ops / training steps); the "
                            "code under test has no wall-clock timers" % sim_steps,
          "workers": W,
          "wall_budget_hit": capped,
          "components_real": meta.get("real", []),
          "components_stub": meta.get("stub", []),
          "engine": meta.get("engine", ""),
          "known_findings_seen": sorted(known_seen),
          "new_violation_signatures": sorted(new_viol),
          "harness_errors": len(herrs),
      },
      "assumptions": [
          "qkeras imported from /repo working tree, run on tf_keras 2.21 "
          "(TF_USE_LEGACY_KERAS=1) / TensorFlow 2.21 CPU, 1 intra-op and 1 "
          "inter-op thread, op determinism on",
          "replay executes the recorded op list; one seed = one run "
          "(run_seed = sha256(VERIF_SEED, property, index))",
          "sampling, not enumeration: a clean batch is evidence, not proof",
      ],
      "wall_s": round(wall, 2),
      "violations": len(confirmed),
  }
  os.makedirs(EVIDENCE_DIR, exist_ok=True)
  ev_path = os.path.join(EVIDENCE_DIR, "%s.json" % prop)
  with open(ev_path + ".tmp", "w") as f:
    json.dump(evidence, f, indent=1, sort_keys=True, default=repr)
  os.replace(ev_path + ".tmp", ev_path)

  print("%s tier=%s seed=%d runs=%d (directed %d) distinct_nontrivial=%d "
        "oracle_checks=%d wall=%.1fs exec=%.1fs%s" % (
            prop, tier, seed, len(recs), ndirected, len(nontrivial), checks,
            wall, exec_wall, " [wall budget hit]" if capped else ""))
  slow = sorted(recs, key=lambda r: -r.get("wall", 0))[:4]
  print("slowest runs: %s; workers finished after %s s" % (
      ", ".join("%s=%.0fs" % (r.get("label"), r.get("wall", 0)) for r in slow),
      sorted(round(d.get("wall", 0)) for d in dones)[-3:]))
  print("faults fired: %s" % json.dumps(dict(sorted(faults.items()))))
  print("probes: %s" % json.dumps(dict(sorted(probes.items()))))
  for s in sorted(known_seen):
    print("KNOWN-FINDING: property=%s %s [%s]" % (
        prop, known[s].get("what", ""), s))
  for s in sorted(set(known) - set(known_seen)):
    print("note: listed known finding not reproduced in this run: %s" % s)
  rc = 0
  for sig, e in confirmed:
    print("violation: %s (%d runs; minimised to %s ops): %s" % (
        sig, e["count"], e.get("min_ops"), e["msg"]))
    print("VIOLATION property=%s replay=%s" % (prop, e["replay"]))
    rc = 1
  if rc == 0 and (herrs or unconfirmed):
    for sig, why in unconfirmed:
      print("HARNESS-ERROR: violation %s did not replay: %s" % (sig, why))
    for h in herrs[:5]:
      print("HARNESS-ERROR: run %s: %s" % (h.get("idx"),
                                           h["harness_error"][:2000]))
    rc = 2
  elif herrs or unconfirmed:
    for sig, why in unconfirmed:
      print("note: violation %s did not replay: %s" % (sig, why))
    for h in herrs[:3]:
      print("note: harness error in run %s: %s" % (
          h.get("idx"), h["harness_error"][:500]))
  if rc == 0 and not recs:
    print("HARNESS-ERROR: no run completed")
    rc = 2
  return rc


if __name__ == "__main__":
  sys.exit(main())
