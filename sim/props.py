"""Registry of claimed properties -> the module that decides each.

Every module exposes: ENGINE (str), LEVEL (str), generate(rng) -> scenario,
directed() -> [scenario], simplify(scn) -> iterable of candidate scenarios,
execute(scn, known_sigs, stop=True) -> result dict, RULE (str), REAL, STUB.
"""
import importlib

MODULES = {
    "C04": "sim.q_c04",
    "C05": "sim.q_c05",
    "C07": "sim.p_c07",
    "C08": "sim.q_c08",
    "C09": "sim.q_c09",
    "C13": "sim.m_c13",
    "C14": "sim.m_c14",
    "C15": "sim.t_c15",
    "C20": "sim.a_c20",
}


def load(prop):
  return importlib.import_module(MODULES[prop])
