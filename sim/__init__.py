"""Deterministic simulation with fault injection for google/qkeras (see /verif/DESIGN.md)."""
