#!/bin/sh
# Sensitivity self-test: every seeded change under /verif/seeded/<id>/ is
# applied to /repo, the quick check of the property it breaks must exit 1 with a
# VIOLATION line, and /repo is restored straight afterwards.
# usage: selftest/sensitivity.sh [seeded-id ...]
cd "$(dirname "$0")/.." || exit 2
git -C /repo status --short | grep -q . && { echo "/repo not clean"; exit 2; }
IDS="$*"; [ -z "$IDS" ] && IDS="$(ls seeded)"
missed=0
for id in $IDS; do
  prop=$(/venv/bin/python -c "import json;print(json.load(open('seeded/$id/meta.json'))['caught_by'][0])")
  git -C /repo apply "$PWD/seeded/$id/patch.diff" || { echo "$id: patch does not apply"; missed=$((missed+1)); continue; }
  out=$(./check "$prop" --tier quick 2>&1); rc=$?
  git -C /repo checkout -- .
  sig=$(echo "$out" | grep -m1 "^violation:" | cut -c1-160)
  if [ $rc -eq 1 ]; then echo "CAUGHT  $id by $prop: $sig"; else echo "MISSED  $id by $prop (exit $rc)"; missed=$((missed+1)); fi
done
git -C /repo status --short | head -3
exit $missed
