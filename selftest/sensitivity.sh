#!/bin/sh
# Sensitivity self-test: every seeded change under /verif/seeded/<id>/ is
# applied, the quick check of the property it breaks must exit 1 with a
# VIOLATION line, and the tree is restored straight afterwards.
# Default: applied to /repo itself (git -C /repo apply ... ; git -C /repo checkout -- .).
# With SENS_SCRATCH=1 a scratch worktree of /repo's HEAD under $TMPDIR is used
# instead (VERIF_REPO points the checks at it), so /repo stays untouched; the
# worktree is removed at the end.
# usage: selftest/sensitivity.sh [seeded-id ...]
cd "$(dirname "$0")/.." || exit 2
git -C /repo status --short | grep -q . && { echo "/repo not clean"; exit 2; }
TREE=/repo
if [ -n "$SENS_SCRATCH" ]; then
  TREE="${TMPDIR:-/tmp}/verif-sens-$$"
  git -C /repo worktree add --detach "$TREE" HEAD >/dev/null 2>&1 || { echo "cannot create worktree"; exit 2; }
  export VERIF_REPO="$TREE"
  trap 'git -C /repo worktree remove --force "$TREE" >/dev/null 2>&1' EXIT INT TERM
fi
IDS="$*"; [ -z "$IDS" ] && IDS="$(ls seeded)"
missed=0
for id in $IDS; do
  prop=$(/venv/bin/python -c "import json;print(json.load(open('seeded/$id/meta.json'))['caught_by'][0])")
  git -C "$TREE" apply "$PWD/seeded/$id/patch.diff" || { echo "$id: patch does not apply"; missed=$((missed+1)); continue; }
  out=$(./check "$prop" --tier quick 2>&1); rc=$?
  git -C "$TREE" checkout -- .
  sig=$(echo "$out" | grep -m1 "^violation:" | cut -c1-160)
  if [ $rc -eq 1 ]; then echo "CAUGHT  $id by $prop: $sig"; else echo "MISSED  $id by $prop (exit $rc)"; missed=$((missed+1)); fi
done
git -C "$TREE" status --short | head -3
exit $missed
