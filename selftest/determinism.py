"""Determinism self-test (DESIGN 3.8).

For every claimed property: the same scenarios are executed
  (a) twice in one process (second pass in reverse order, so that leaked
      process-global state - Keras uid counters, learning phase, caches - shows),
  (b) in a fresh interpreter under another PYTHONHASHSEED,
  (c) with all processes running concurrently (16-way load),
and the event-log digests must be identical.  Scenarios are random ones
(--no-directed) derived from VERIF_SEED.

usage: selftest/determinism.py [N per property] [props...]
"""
import os
import subprocess
import sys

HERE = os.path.dirname(os.path.dirname(os.path.abspath(__file__)))
sys.path.insert(0, HERE)
from sim import driver  # noqa: E402


def run(prop, lo, hi, hashseed, repeat, seed):
  env = driver.worker_env()
  env["PYTHONHASHSEED"] = str(hashseed)
  cmd = [driver.PY, driver.WORKER, "digest", "--prop", prop, "--seed", str(seed),
         "--lo", str(lo), "--hi", str(hi), "--no-directed", "--repeat",
         str(repeat)]
  return subprocess.Popen(cmd, env=env, stdout=subprocess.PIPE,
                          stderr=subprocess.DEVNULL, cwd=HERE)


def parse(out):
  d = {}
  for line in out.decode().splitlines():
    p = line.split()
    if len(p) == 4 and p[0].isdigit():
      d.setdefault(int(p[1]), []).append(p[2])
  return d


def main():
  n = int(sys.argv[1]) if len(sys.argv) > 1 else 40
  props = sys.argv[2:] or sorted(driver.TIERS)
  seed = int(os.environ.get("VERIF_SEED", "0") or 0)
  bad = 0
  total = 0
  for prop in props:
    chunks = 8
    per = max(1, n // chunks)
    procs = []
    for c in range(chunks):
      lo, hi = c * per, (c + 1) * per
      procs.append((lo, hi, run(prop, lo, hi, 0, 2, seed),
                    run(prop, lo, hi, 424242, 1, seed)))
    for lo, hi, pa, pb in procs:
      a = parse(pa.communicate()[0])
      b = parse(pb.communicate()[0])
      for idx in range(lo, hi):
        total += 1
        da, db = a.get(idx, []), b.get(idx, [])
        if len(da) != 2 or len(db) != 1 or len({da[0], da[1], db[0]}) != 1:
          bad += 1
          print("NONDETERMINISTIC %s run %d: same-process %r fresh %r" % (
              prop, idx, da, db))
    print("%s: %d scenarios x (2 passes in one process + 1 fresh interpreter "
          "with another PYTHONHASHSEED), 16 processes concurrently" % (
              prop, chunks * per), flush=True)
  print("determinism: %d scenarios, %d divergent" % (total, bad))
  return 1 if bad else 0


if __name__ == "__main__":
  sys.exit(main())
