"""C09 violation: array / tensor valued constructor options do not survive the
framework's serialize_keras_object / deserialize_keras_object pair.  get_config
hands the array through, the framework encodes it as
{'class_name': '__numpy__' | '__tensor__', ...} and from_config (cls(**config))
never decodes it: the rebuild raises (quantized_linear) or yields a quantizer
that raises on every input (all others).  Direct from_config and
get_quantizer(dict) work, so the three routes disagree."""
import sys
import numpy as np
import tensorflow as tf
from qkeras import quantizers as Q

x = tf.constant(np.linspace(-2, 2, 20, dtype="float32").reshape(4, 5))
per_channel = np.array([1.0, 2.0, 0.5, 1.0, 4.0])
def upd(q):
  q.update_qnoise_factor(tf.constant(0.5))
  return q


def adaptive():
  from qkeras import QAdaptiveActivation
  layer = QAdaptiveActivation("quantized_relu", 6, quantization_delay=1)
  layer(x, training=True)
  layer(x, training=False)
  return layer.quantizer


cases = [
    ("quantized_bits(alpha=ndarray)", lambda: Q.quantized_bits(4, 0, alpha=np.array([2.0]))),
    ("quantized_linear(alpha=ndarray)", lambda: Q.quantized_linear(4, 0, alpha=per_channel)),
    ("quantized_linear(alpha=tensor)", lambda: Q.quantized_linear(4, 0, alpha=tf.constant([2.0]))),
    ("binary(alpha=ndarray)", lambda: Q.binary(alpha=per_channel)),
    ("ternary(alpha=ndarray)", lambda: Q.ternary(alpha=per_channel, threshold=0.2)),
    ("bernoulli(alpha=ndarray)", lambda: Q.bernoulli(alpha=np.array([1.5]))),
    # what QAdaptiveActivation.build() does to its quantizer: integer = int32 Variable [C]
    ("quantized_bits(integer=tf.Variable int32[C])",
     lambda: Q.quantized_bits(6, tf.Variable([1, 2, 0, 1, 3], dtype=tf.int32), alpha=1.0)),
    ("quantized_relu(integer=tf.Variable int32[C])",
     lambda: Q.quantized_relu(6, tf.Variable([1, 2, 0, 1, 3], dtype=tf.int32))),
    # history: the public BaseQuantizer.update_qnoise_factor given a tensor, exactly
    # what QAdaptiveActivation.call() does (update_qnoise_factor(tf.constant(1.0)))
    ("quantized_bits().update_qnoise_factor(tf.constant(.5))", lambda: upd(Q.quantized_bits(4, 1))),
    ("quantized_po2().update_qnoise_factor(tf.constant(.5))", lambda: upd(Q.quantized_po2(4))),
    ("quantizer of a QAdaptiveActivation that has been called", adaptive),
]
fail = False
for name, mk in cases:
  q = mk()
  tf.random.set_seed(1); y = q(x).numpy()
  q_direct = type(q).from_config(q.get_config())
  tf.random.set_seed(1); ok_direct = np.array_equal(q_direct(x).numpy(), y)
  try:
    q2 = tf.keras.utils.deserialize_keras_object(tf.keras.utils.serialize_keras_object(q))
    tf.random.set_seed(1); y2 = q2(x).numpy()
    same = np.array_equal(y, y2)
    print(f"{name:48s} direct_same={ok_direct} serialize/deserialize same={same}")
    fail |= not same
  except Exception as e:  # pylint: disable=broad-except
    print(f"{name:48s} direct_same={ok_direct} serialize/deserialize RAISED "
          f"{type(e).__name__}: {str(e).splitlines()[0][:110]}")
    fail = True
print("FAIL" if fail else "PASS")
sys.exit(1 if fail else 0)
