"""C09 violation: numpy-float (or float tf.Variable) bits / integer options of
quantized_relu, quantized_tanh and quantized_sigmoid work in the original
quantizer, but the framework pair turns np.float32 into a python float and the
rebuilt quantizer raises TypeError on every input (K.pow(2, <python float>))."""
import sys
import numpy as np
import tensorflow as tf
from qkeras import quantizers as Q

x = tf.constant([[-1., 0.3, 0.7, 1.2, 5.]])
cases = [
    ("quantized_relu(4, integer=np.float32(1))", lambda: Q.quantized_relu(4, np.float32(1.0))),
    ("quantized_relu(4, integer=tf.Variable(1.0))", lambda: Q.quantized_relu(4, tf.Variable(1.0))),
    ("quantized_relu(bits=np.float32(4), 1)", lambda: Q.quantized_relu(np.float32(4), 1)),
    ("quantized_tanh(bits=np.float32(4))", lambda: Q.quantized_tanh(np.float32(4))),
    ("quantized_sigmoid(bits=np.float32(4))", lambda: Q.quantized_sigmoid(np.float32(4))),
]
fail = False
for name, mk in cases:
  q = mk()
  y = q(x).numpy()
  y_direct = type(q).from_config(q.get_config())(x).numpy()
  try:
    q2 = tf.keras.utils.deserialize_keras_object(tf.keras.utils.serialize_keras_object(q))
    y2 = q2(x).numpy()
    same = np.array_equal(y, y2)
    print(f"{name:46s} direct_same={np.array_equal(y, y_direct)} framework same={same}")
    fail |= not same
  except Exception as e:  # pylint: disable=broad-except
    print(f"{name:46s} direct_same={np.array_equal(y, y_direct)} framework RAISED "
          f"{type(e).__name__}: {str(e).splitlines()[0][:90]}")
    fail = True
print("FAIL" if fail else "PASS")
sys.exit(1 if fail else 0)
