"""C09 violation: quantized_bits built with a post_training_scale that is not an
np.ndarray (python float, list, tf tensor) cannot produce its own configuration,
so no rebuild route (from_config / get_quantizer(dict) / serialize-deserialize)
succeeds.  The constructor accepts these values (it does np.array(...) itself)
and the quantizer works."""
import sys
import numpy as np
import tensorflow as tf
from qkeras import quantizers as Q

x = tf.constant(np.linspace(-2, 2, 21, dtype="float32").reshape(1, 21))
fail = False
for name, pts in [("float", 0.5), ("list", [0.5]), ("tensor", tf.constant([0.5])),
                  ("ndarray (control)", np.array([0.5]))]:
  q = Q.quantized_bits(4, 0, alpha="auto_po2", post_training_scale=pts)
  y = q(x).numpy()          # the original quantizer works
  for route, build in [
      ("from_config(get_config())", lambda: Q.quantized_bits.from_config(q.get_config())),
      ("get_quantizer(dict)", lambda: Q.get_quantizer(
          {"class_name": "quantized_bits", "config": q.get_config()})),
      ("serialize/deserialize", lambda: tf.keras.utils.deserialize_keras_object(
          tf.keras.utils.serialize_keras_object(q))),
  ]:
    try:
      q2 = build()
      same = np.array_equal(q2(x).numpy(), y) and np.array_equal(
          np.array(q2.scale), np.array(q.scale))
      print(f"post_training_scale={name:18s} {route:28s} ok same={same}")
      fail |= not same
    except Exception as e:  # pylint: disable=broad-except
      print(f"post_training_scale={name:18s} {route:28s} RAISED "
            f"{type(e).__name__}: {str(e).splitlines()[0]}")
      fail = True
print("FAIL" if fail else "PASS")
sys.exit(1 if fail else 0)
