"""C15 repro 3: QConv2DBatchnorm accepts QConv2D's `mask` argument (stored in the config) but its
call() never applies it.

 (a) no quantizers: the folded layer differs from QConv2D(mask) followed by BatchNormalization
     with the same parameters;
 (b) unfold_model() builds a QConv2D from the folded layer's config - mask included - and that
     layer DOES apply the mask, so unfolding changes the inference predictions.
"""
import sys
import numpy as np
import tensorflow as tf
from tensorflow.keras import layers as L
from qkeras import QConv2D, QConv2DBatchnorm
from qkeras.bn_folding_utils import unfold_model

rng = np.random.default_rng(0)
mask = np.array([[1, 0, 1], [0, 1, 0], [1, 0, 1]], "float32")

lay = QConv2DBatchnorm(4, (3, 3), mask=mask, name="f")
i = L.Input((8, 8, 3))
m = tf.keras.Model(i, lay(i))
lay.kernel.assign(rng.normal(0, 0.5, lay.kernel.shape).astype("float32"))
lay.bias.assign(rng.normal(0, 0.5, 4).astype("float32"))
bn = lay.batchnorm
bn.gamma.assign(rng.uniform(0.5, 1.5, 4).astype("float32"))
bn.beta.assign(rng.normal(0, 0.5, 4).astype("float32"))
bn.moving_mean.assign(rng.normal(0, 0.5, 4).astype("float32"))
bn.moving_variance.assign(rng.uniform(0.5, 2.0, 4).astype("float32"))

x = rng.normal(0, 1, (2, 8, 8, 3)).astype("float32")
got = m.predict(x, verbose=0)

# (a) the same convolution followed by batch normalisation
c = QConv2D(4, (3, 3), mask=mask)
b = L.BatchNormalization()
ref = tf.keras.Sequential([L.Input((8, 8, 3)), c, b])
c.set_weights([lay.kernel.numpy(), lay.bias.numpy()])
b.set_weights([bn.gamma.numpy(), bn.beta.numpy(), bn.moving_mean.numpy(), bn.moving_variance.numpy()])
d_a = np.abs(got - ref.predict(x, verbose=0)).max()
print("mask stored in folded layer config:", lay.get_config()["mask"] is not None)
print("(a) max|folded - BN(QConv2D(mask))| = %.4f" % d_a)

# (b) unfolding
um = unfold_model(m)
d_b = np.abs(um.predict(x, verbose=0) - got).max()
print("(b) max|unfolded - folded|          = %.4f" % d_b)

if d_a > 1e-3 or d_b > 1e-3:
  print("FAIL: QConv2DBatchnorm ignores its mask; conv+BN equivalence and unfolding are violated")
  sys.exit(1)
print("OK")
