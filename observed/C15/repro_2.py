"""C15 repro 2: convert_to_folded_model()/model_quantize(enable_bn_folding=True) silently drop
every model output that also feeds another layer.

The conversion rebuilds the model from a qgraph; GraphAddSingleSourceSingleSink only connects
nodes with out_degree == 0 to the SINK, and convert_to_folded_model collects model outputs only
from edges into the SINK.  A two-output conv+BN model therefore comes back with ONE output, so
the converted (folded) model does not return the predictions of the source model.
"""
import sys
import numpy as np
import tensorflow as tf
from tensorflow.keras import layers as L
from qkeras.utils import model_quantize, convert_to_folded_model

rng = np.random.default_rng(0)
WIDE = "quantized_bits(24,7,1,alpha=1)"

i = L.Input((8, 8, 3))
a = L.Conv2D(4, 3, name="c1")(i)
a = L.BatchNormalization(name="b1")(a)          # output 0, and input of c2
b = L.Conv2D(2, 3, name="c2")(a)                # output 1
m = tf.keras.Model(i, [a, b])

for v in m.variables:
  if "moving_variance" in v.name:
    v.assign(rng.uniform(0.5, 2.0, v.shape).astype("float32"))
  else:
    v.assign(rng.normal(0, 0.5, v.shape).astype("float32"))

x = rng.normal(0, 1, (2, 8, 8, 3)).astype("float32")
ref = m.predict(x, verbose=0)
print("source model outputs :", [r.shape for r in ref])

stripped, to_fold = convert_to_folded_model(m)
print("convert_to_folded_model -> outputs:", stripped.output_shape, " layers_to_fold:", to_fold)

qcfg = {"QConv2DBatchnorm": {"kernel_quantizer": WIDE, "bias_quantizer": WIDE},
        "QConv2D": {"kernel_quantizer": WIDE, "bias_quantizer": WIDE}}
qm = model_quantize(m, qcfg, 8, enable_bn_folding=True)
f, c1, b1 = qm.get_layer("c1"), m.get_layer("c1"), m.get_layer("b1")
f.kernel.assign(c1.kernel.numpy()); f.bias.assign(c1.bias.numpy())
f.batchnorm.gamma.assign(b1.gamma.numpy()); f.batchnorm.beta.assign(b1.beta.numpy())
f.batchnorm.moving_mean.assign(b1.moving_mean.numpy())
f.batchnorm.moving_variance.assign(b1.moving_variance.numpy())
qm.get_layer("c2").set_weights(m.get_layer("c2").get_weights())
got = qm.predict(x, verbose=0)
got = got if isinstance(got, list) else [got]
print("folded model layers  :", [l.__class__.__name__ for l in qm.layers])
print("folded model outputs :", [g.shape for g in got])

same = len(got) == len(ref) and all(
    g.shape == r.shape and np.allclose(g, r, atol=1e-3) for g, r in zip(got, ref))
if not same:
  print("FAIL: the folded model returns %d output(s) instead of %d; the output taken from the "
        "folded conv+BN pair (%s) is gone" % (len(got), len(ref), ref[0].shape,))
  sys.exit(1)
print("OK")
