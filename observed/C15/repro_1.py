"""C15 repro 1: model_quantize(enable_bn_folding=True) folds Conv2D(activation=...) + BatchNormalization.

The source computes BN(act(conv(x))).  convert_to_folded_model() removes the BN and marks
the conv for folding without looking at the conv's own activation, so the folded layer
computes act(BN(conv(x))) -- a different function, whatever weights are copied.
"""
import sys
import numpy as np
import tensorflow as tf
from tensorflow.keras import layers as L
from qkeras.utils import model_quantize

rng = np.random.default_rng(0)
WIDE = "quantized_bits(24,7,1,alpha=1)"   # 2^-16 resolution: quantisation is negligible


def build(kind):
  i = L.Input((8, 8, 3))
  if kind == "conv":
    y = L.Conv2D(4, 3, activation="relu", name="c1")(i)
  else:
    y = L.DepthwiseConv2D(3, activation="relu", name="c1")(i)
  y = L.BatchNormalization(name="b1")(y)
  return tf.keras.Model(i, y)


fail = False
for kind, qname, kq in (("conv", "QConv2DBatchnorm", "kernel_quantizer"),
                        ("dw", "QDepthwiseConv2DBatchnorm", "depthwise_quantizer")):
  m = build(kind)
  c, b = m.get_layer("c1"), m.get_layer("b1")
  nch = b.gamma.shape[0]
  b.gamma.assign(rng.uniform(0.5, 1.5, nch).astype("float32"))
  b.beta.assign(np.full(nch, -1.0, "float32"))          # negative shift after the relu
  b.moving_mean.assign(rng.normal(0, 0.3, nch).astype("float32"))
  b.moving_variance.assign(rng.uniform(0.5, 2.0, nch).astype("float32"))
  c.bias.assign(rng.normal(0, 0.3, nch).astype("float32"))

  # "activation_quantizer": "relu" keeps the activation an exact relu in the folded layer.
  qcfg = {qname: {kq: WIDE, "bias_quantizer": WIDE, "activation_quantizer": "relu"}}
  qm = model_quantize(m, qcfg, 8, enable_bn_folding=True)
  f = qm.get_layer("c1")
  assert f.__class__.__name__ == qname, f.__class__.__name__

  # copy the weights by role
  if kind == "conv":
    f.kernel.assign(c.kernel.numpy())
  else:
    f.depthwise_kernel.assign(c.depthwise_kernel.numpy())
  f.bias.assign(c.bias.numpy())
  f.batchnorm.gamma.assign(b.gamma.numpy())
  f.batchnorm.beta.assign(b.beta.numpy())
  f.batchnorm.moving_mean.assign(b.moving_mean.numpy())
  f.batchnorm.moving_variance.assign(b.moving_variance.numpy())
  assert abs(f.batchnorm.epsilon - b.epsilon) < 1e-12

  x = rng.normal(0, 1, (4, 8, 8, 3)).astype("float32")
  ref = m.predict(x, verbose=0)
  got = qm.predict(x, verbose=0)
  d = np.abs(ref - got).max()
  print("%s: layers=%s  max|source - folded| = %.4f   min(source)=%.3f  min(folded)=%.3f" % (
      kind, [l.__class__.__name__ for l in qm.layers], d, ref.min(), got.min()))
  if d > 1e-2:
    fail = True

if fail:
  print("FAIL: folding a conv that has its own activation in front of the BN changes the "
        "network function (BN(relu(conv)) became relu(BN(conv)))")
  sys.exit(1)
print("OK")
