"""C15 repro 5 (call-order / stale cache): populate_bias_quantizer_from_accumulator() installs a
bias quantizer on already-built folded layers by mutating python attributes, but leaves the
model's traced predict function in place.  If the model was used for predict() before, later
predict() calls keep adding the UNQUANTIZED folded bias although the layer now has a bias
quantizer; model(x) and unfold_model(model) use the quantized bias, so unfolding "changes"
the predictions.
"""
import sys
import numpy as np
import tensorflow as tf
from tensorflow.keras import layers as L
from qkeras import QActivation, QConv2DBatchnorm, QDepthwiseConv2DBatchnorm
from qkeras.bn_folding_utils import unfold_model, populate_bias_quantizer_from_accumulator


def build():
  rng = np.random.default_rng(2)
  i = L.Input((8, 8, 3))
  y = QActivation("quantized_bits(8,0,1)")(i)
  y = QConv2DBatchnorm(4, 3, kernel_quantizer="quantized_bits(4,0,1,alpha=1)",
                       bias_quantizer=None, name="a")(y)
  y = QActivation("quantized_relu(6,2)")(y)
  y = QDepthwiseConv2DBatchnorm(3, depthwise_quantizer="quantized_bits(4,0,1,alpha=1)",
                                bias_quantizer=None, name="b")(y)
  m = tf.keras.Model(i, y)
  for v in m.variables:
    if "iteration" in v.name:
      continue
    if "variance" in v.name:
      v.assign(rng.uniform(0.3, 2.0, v.shape).astype("float32"))
    elif "gamma" in v.name:
      v.assign(rng.uniform(0.5, 1.5, v.shape).astype("float32"))
    else:
      v.assign(rng.normal(0, 0.5, v.shape).astype("float32"))
  return m


x = np.random.default_rng(3).normal(0, 1, (3, 8, 8, 3)).astype("float32")


def expected(m):
  """conv with quantized folded kernel + quantized folded bias, layer by layer."""
  y = tf.constant(x)
  for l in m.layers[1:]:
    if hasattr(l, "get_folded_weights"):
      fk, fb = l.get_folded_weights()
      if l.__class__.__name__ == "QConv2DBatchnorm":
        y = tf.keras.backend.conv2d(y, l.kernel_quantizer_internal(fk))
      else:
        y = tf.keras.backend.depthwise_conv2d(y, l.depthwise_quantizer_internal(fk))
      y = y + l.bias_quantizer_internal(fb)
    else:
      y = l(y)
  return y.numpy()


res = {}
for predict_first in (False, True):
  m = build()
  if predict_first:
    m.predict(x, verbose=0)                       # e.g. an evaluation before populating
  populate_bias_quantizer_from_accumulator(m, ["quantized_bits(8,0,1)"])
  assert m.get_layer("a").bias_quantizer_internal is not None
  p = m.predict(x, verbose=0)
  e = expected(m)
  u = unfold_model(m).predict(x, verbose=0)
  res[predict_first] = (np.abs(p - e).max(), np.abs(u - p).max())
  print("predict before populate=%-5s bias quantizers=(%s, %s)  max|predict - spec| = %.5f  "
        "max|unfolded - folded predict| = %.5f" % (
            predict_first, m.get_layer("a").bias_quantizer_internal,
            m.get_layer("b").bias_quantizer_internal, *res[predict_first]))

if max(res[True]) > 1e-3:
  print("FAIL: after populate_bias_quantizer_from_accumulator the folded model's predict() still "
        "adds the unquantized folded bias (stale traced function); unfolding changes predictions")
  sys.exit(1)
print("OK")
