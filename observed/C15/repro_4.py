"""C15 repro 4: QConv2DBatchnorm silently ignores data_format="channels_first".

QConv2DBatchnorm.__init__ has a data_format parameter but does not forward it to
QConv2D.__init__, so the layer is always channels_last.  A channels_first folded layer
(BN axis=1) therefore does not compute QConv2D(channels_first) followed by
BatchNormalization(axis=1); even the output shape is different.
(QDepthwiseConv2DBatchnorm forwards data_format and is fine.)
"""
import sys
import numpy as np
import tensorflow as tf
from tensorflow.keras import layers as L
from qkeras import QConv2D, QConv2DBatchnorm

rng = np.random.default_rng(0)
lay = QConv2DBatchnorm(4, (3, 3), data_format="channels_first", axis=1)
i = L.Input((3, 8, 8))                      # NCHW: 3 channels, 8x8
m = tf.keras.Model(i, lay(i))

c = QConv2D(4, (3, 3), data_format="channels_first")
b = L.BatchNormalization(axis=1)
ref = tf.keras.Sequential([L.Input((3, 8, 8)), c, b])

print("requested data_format: channels_first; layer.data_format =", lay.data_format)
print("kernel shape folded:", tuple(lay.kernel.shape), " reference:", tuple(c.kernel.shape))
print("output shape folded:", m.output_shape, " reference conv+BN:", ref.output_shape)

bad = False
if tuple(lay.kernel.shape) == tuple(c.kernel.shape):
  c.set_weights([lay.kernel.numpy(), lay.bias.numpy()])
  x = rng.normal(0, 1, (2, 3, 8, 8)).astype("float32")
  bad = not np.allclose(m.predict(x, verbose=0), ref.predict(x, verbose=0), atol=1e-4)
else:
  bad = True
if bad or m.output_shape != ref.output_shape:
  print("FAIL: QConv2DBatchnorm(data_format='channels_first') computes a channels_last "
        "convolution, not conv(channels_first)+BN(axis=1)")
  sys.exit(1)
print("OK")
