"""quantized_bits(post_training_scale=<float or list>) works in the model but
the model can no longer be serialized: get_config() calls .tolist() on it.
"""
import os, sys, tempfile
import numpy as np
import tensorflow as tf
from qkeras import QDense, quantized_bits
from qkeras.utils import clone_model, quantized_model_from_json, load_qmodel

rng = np.random.RandomState(0)
x = rng.standard_normal((4, 6)).astype("float32")
fail = False
for pts in [2.0, [1.0, 2.0, 0.5, 1.0]]:
  tf.keras.backend.clear_session()
  i = tf.keras.layers.Input((6,))
  q = quantized_bits(4, 0, 1, alpha="auto", post_training_scale=pts)
  model = tf.keras.Model(i, QDense(4, kernel_quantizer=q)(i))
  ref = model.predict(x, verbose=0)      # fine
  fn = os.path.join(tempfile.mkdtemp(), "m.h5")
  for tag, route in [
      ("json", lambda: quantized_model_from_json(model.to_json())),
      ("clone", lambda: clone_model(model)),
      ("h5", lambda: (model.save(fn), load_qmodel(fn, compile=False))[1])]:
    try:
      m = route(); m.set_weights(model.get_weights())
      same = np.array_equal(ref, m.predict(x, verbose=0))
      print("post_training_scale=%r %-5s identical=%s" % (pts, tag, same))
      fail |= not same
    except Exception as e:  # pylint: disable=broad-except
      print("post_training_scale=%r %-5s raised %s" % (pts, tag, repr(e)[:100]))
      fail = True
print("FAIL" if fail else "PASS")
sys.exit(1 if fail else 0)
