"""QBatchNormalization(activation=...) is not part of get_config(): the
rebuilt layer reports activation None."""
import os, sys, tempfile
import numpy as np
import tensorflow as tf
from qkeras import QBatchNormalization
from qkeras.utils import clone_model, quantized_model_from_json, load_qmodel

i = tf.keras.layers.Input((8, 8, 4))
model = tf.keras.Model(i, QBatchNormalization(activation="quantized_relu(4)", name="bn")(i))
fn = os.path.join(tempfile.mkdtemp(), "m.h5")
model.save(fn)
fail = False
for tag, m in [("json", quantized_model_from_json(model.to_json())),
               ("clone", clone_model(model)),
               ("h5", load_qmodel(fn, compile=False))]:
  a0, a1 = model.get_layer("bn").activation, m.get_layer("bn").activation
  print(tag, "activation:", repr(a0), "->", repr(a1))
  fail |= a0 != a1
print("FAIL" if fail else "PASS")
sys.exit(1 if fail else 0)
