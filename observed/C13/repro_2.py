"""A trained model with two QAdaptiveActivation layers cannot be saved to HDF5.

Each QAdaptiveActivation creates its step counter as an unnamed, *trainable*
tf.Variable ("Variable:0"). The optimizer creates a slot for each of them,
both called "<opt>/m/Variable:0", and model.save("x.h5") dies with
"name already exists".
"""
import os, sys, tempfile
import numpy as np
import tensorflow as tf
from qkeras import QAdaptiveActivation, QDense
from qkeras.utils import load_qmodel

rng = np.random.RandomState(0)
x = rng.standard_normal((16, 6)).astype("float32")
y = rng.standard_normal((16, 3)).astype("float32")

i = tf.keras.layers.Input((6,))
h = QDense(5, kernel_quantizer="quantized_bits(4,0,1)")(i)
h = QAdaptiveActivation("quantized_relu", 6, quantization_delay=1)(h)
h = QDense(5, kernel_quantizer="quantized_bits(4,0,1)")(h)
h = QAdaptiveActivation("quantized_relu", 6, quantization_delay=1)(h)
o = QDense(3, kernel_quantizer="quantized_bits(4,0,1)")(h)
model = tf.keras.Model(i, o)
model.compile("adam", "mse")
model.fit(x, y, epochs=2, batch_size=8, verbose=0)
ref = model.predict(x, verbose=0)

fn = os.path.join(tempfile.mkdtemp(), "m.h5")
try:
  model.save(fn)
  m2 = load_qmodel(fn)
  ok = np.array_equal(ref, m2.predict(x, verbose=0))
  print("saved and reloaded, predictions identical:", ok)
except Exception as e:  # pylint: disable=broad-except
  print("model.save(h5) raised:", repr(e)[:200])
  print("step variables:", [(w.name, w.trainable) for w in model.weights
                            if w.dtype == tf.int64])
  ok = False
print("PASS" if ok else "FAIL")
sys.exit(0 if ok else 1)
