"""hard_sigmoid changes meaning on the way through save / clone / reload.

The library's hard_sigmoid is clip(0.5*x+0.5, 0, 1), Keras' is
clip(0.2*x+0.5, 0, 1). Both are serialized by their bare name, so which one
comes back depends on the layer and the route, not on what the model used.
"""
import os, sys, tempfile
import numpy as np
import tensorflow as tf
import qkeras
from qkeras import QActivation, QDense, QLSTM
from qkeras.utils import clone_model, quantized_model_from_json, load_qmodel

rng = np.random.RandomState(0)
qb = "quantized_bits(4,0,1)"
cases = [
    ("QActivation(qkeras.hard_sigmoid)", (6,),
     lambda: QActivation(qkeras.hard_sigmoid)),
    ("QActivation(keras hard_sigmoid)", (6,),
     lambda: QActivation(tf.keras.activations.hard_sigmoid)),
    ("QDense(activation=keras hard_sigmoid)", (6,),
     lambda: QDense(4, kernel_quantizer=qb,
                    activation=tf.keras.activations.hard_sigmoid)),
    ("QLSTM(recurrent_activation=keras hard_sigmoid)", (7, 4),
     lambda: QLSTM(3, kernel_quantizer=qb,
                   recurrent_activation=tf.keras.activations.hard_sigmoid)),
]
fail = False
for name, shape, mk in cases:
  tf.keras.backend.clear_session()
  i = tf.keras.layers.Input(shape)
  model = tf.keras.Model(i, mk()(i))
  x = rng.standard_normal((4,) + shape).astype("float32")
  ref = model.predict(x, verbose=0)
  fn = os.path.join(tempfile.mkdtemp(), "m.h5")
  routes = [
      ("json", lambda: quantized_model_from_json(model.to_json())),
      ("clone", lambda: clone_model(model)),
      ("h5", lambda: (model.save(fn), load_qmodel(fn, compile=False))[1])]
  for tag, route in routes:
    m = route()
    m.set_weights(model.get_weights())
    p = m.predict(x, verbose=0)
    same = np.array_equal(ref, p)
    print("%-50s %-5s identical=%-5s max|diff|=%.4f" %
          (name, tag, same, float(np.max(np.abs(ref - p)))))
    fail |= not same
print("FAIL" if fail else "PASS")
sys.exit(1 if fail else 0)
