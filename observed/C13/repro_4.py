"""Layers whose activation is one of the library's quantization *functions*
(hard_tanh, binary_tanh, binary_sigmoid, smooth_sigmoid, smooth_tanh) cannot
be rebuilt by any of the three routes; and the pooling / scale-shift layers
cannot be rebuilt with ANY function activation (not even "relu").
"""
import os, sys, tempfile
import numpy as np
import tensorflow as tf
from qkeras import (QDense, QConv2D, QLSTM, QAveragePooling2D,
                    QGlobalAveragePooling2D, QScaleShift)
from qkeras.utils import clone_model, quantized_model_from_json, load_qmodel

rng = np.random.RandomState(0)
qb = "quantized_bits(4,0,1)"
cases = [
    ("QDense(activation='hard_tanh')", (6,),
     lambda: QDense(4, kernel_quantizer=qb, activation="hard_tanh")),
    ("QConv2D(activation='binary_tanh')", (8, 8, 3),
     lambda: QConv2D(4, 3, kernel_quantizer=qb, activation="binary_tanh")),
    ("QLSTM(recurrent_activation='smooth_sigmoid')", (7, 4),
     lambda: QLSTM(3, kernel_quantizer=qb, recurrent_activation="smooth_sigmoid")),
    ("QAveragePooling2D(activation='relu')", (8, 8, 3),
     lambda: QAveragePooling2D(average_quantizer=qb, activation="relu")),
    ("QGlobalAveragePooling2D(activation='relu')", (8, 8, 3),
     lambda: QGlobalAveragePooling2D(average_quantizer=qb, activation="relu")),
    ("QScaleShift(activation='relu')", (6,),
     lambda: QScaleShift(weight_quantizer=qb, bias_quantizer=qb, activation="relu")),
]
fail = False
for name, shape, mk in cases:
  tf.keras.backend.clear_session()
  i = tf.keras.layers.Input(shape)
  model = tf.keras.Model(i, mk()(i))
  x = rng.standard_normal((4,) + shape).astype("float32")
  ref = model.predict(x, verbose=0)          # the original works fine
  fn = os.path.join(tempfile.mkdtemp(), "m.h5")
  routes = [
      ("json", lambda: quantized_model_from_json(model.to_json())),
      ("clone", lambda: clone_model(model)),
      ("h5", lambda: (model.save(fn), load_qmodel(fn, compile=False))[1])]
  for tag, route in routes:
    try:
      m = route()
      m.set_weights(model.get_weights())
      same = np.array_equal(ref, m.predict(x, verbose=0))
      print("%-48s %-5s identical=%s" % (name, tag, same))
      fail |= not same
    except Exception as e:  # pylint: disable=broad-except
      print("%-48s %-5s raised %s" % (name, tag, repr(e).replace("\\n", " ")[:110]))
      fail = True
print("FAIL" if fail else "PASS")
sys.exit(1 if fail else 0)
