"""clone_model / JSON+set_weights fail when QAdaptiveActivation layers share
the step variable (the usage the docstring recommends: pass
optimizer.iterations as current_step).

The original model owns the shared variable once, every rebuilt layer makes
its own private copy, so model.get_weights() has one entry less than the
rebuilt model expects.
"""
import sys
import numpy as np
import tensorflow as tf
from qkeras import QAdaptiveActivation, QDense
from qkeras.utils import clone_model, quantized_model_from_json

rng = np.random.RandomState(0)
x = rng.standard_normal((16, 6)).astype("float32")
y = rng.standard_normal((16, 3)).astype("float32")

opt = tf.keras.optimizers.SGD(0.01)
i = tf.keras.layers.Input((6,))
h = QDense(5, kernel_quantizer="quantized_bits(4,0,1)")(i)
h = QAdaptiveActivation("quantized_relu", 6, current_step=opt.iterations,
                        quantization_delay=2)(h)
h = QDense(5, kernel_quantizer="quantized_bits(4,0,1)")(h)
h = QAdaptiveActivation("quantized_relu", 6, current_step=opt.iterations,
                        quantization_delay=2)(h)
o = QDense(3, kernel_quantizer="quantized_bits(4,0,1)")(h)
model = tf.keras.Model(i, o)
model.compile(opt, "mse")
model.fit(x, y, epochs=2, batch_size=8, verbose=0)
ref = model.predict(x, verbose=0)

fail = False
for tag, fn in [
    ("clone", lambda: clone_model(model)),
    ("json", lambda: (lambda m: (m.set_weights(model.get_weights()), m)[1])(
        quantized_model_from_json(model.to_json())))]:
  try:
    m = fn()
    same = np.array_equal(ref, m.predict(x, verbose=0))
    print(tag, "predictions identical:", same)
    fail |= not same
  except Exception as e:  # pylint: disable=broad-except
    print(tag, "raised:", repr(e)[:160])
    fail = True
print("FAIL" if fail else "PASS")
sys.exit(1 if fail else 0)
