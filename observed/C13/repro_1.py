"""QActivation built from a string forgets the state of its quantizer.

QActivation.get_config() returns the string the layer was constructed with,
not the quantizer in use. Whatever changed on the quantizer afterwards
(qnoise_factor / use_ste set by QNoiseScheduler or update_qnoise_factor) is
lost by to_json, clone_model and save/load_qmodel: the copy quantizes fully
while the original still blends in the unquantized signal.
"""
import os, sys, tempfile
import numpy as np
import tensorflow as tf
from qkeras import QActivation, QDense
from qkeras.callbacks import QNoiseScheduler
from qkeras.utils import clone_model, quantized_model_from_json, load_qmodel

rng = np.random.RandomState(0)
x = rng.standard_normal((16, 6)).astype("float32")
y = rng.standard_normal((16, 3)).astype("float32")

i = tf.keras.layers.Input((6,))
h = QDense(5, kernel_quantizer="quantized_bits(4,0,1)",
           bias_quantizer="quantized_bits(4,0,1)")(i)
h = QActivation("quantized_relu(4,1)", name="act")(h)      # the usual way
o = QDense(3, kernel_quantizer="quantized_bits(4,0,1)",
           bias_quantizer="quantized_bits(4,0,1)")(h)
model = tf.keras.Model(i, o)
model.compile("sgd", "mse")
# gradual quantization, training stopped in the middle of the schedule
model.fit(x, y, epochs=3, batch_size=8, verbose=0,
          callbacks=[QNoiseScheduler(start=0, finish=10, freq_type="epoch")])

ref = model.predict(x, verbose=0)
q0 = model.get_layer("act").quantizer.get_config()
print("original QActivation quantizer qnoise_factor:", float(q0["qnoise_factor"]))

fail = False
def check(tag, m):
  global fail
  q1 = m.get_layer("act").quantizer.get_config()
  same_pred = np.array_equal(ref, m.predict(x, verbose=0))
  same_q = float(q1["qnoise_factor"]) == float(np.float32(q0["qnoise_factor"]))
  print("%-6s predictions identical: %s   qnoise_factor: %s" %
        (tag, same_pred, float(q1["qnoise_factor"])))
  if not (same_pred and same_q):
    fail = True

m1 = quantized_model_from_json(model.to_json()); m1.set_weights(model.get_weights())
check("json", m1)
check("clone", clone_model(model))
fn = os.path.join(tempfile.mkdtemp(), "m.h5")
model.save(fn)
check("h5", load_qmodel(fn, compile=False))

print("FAIL" if fail else "PASS")
sys.exit(1 if fail else 0)
