"""C07 / factor changed through the update API is lost by QActivation("...") configs.

A QActivation created from a string keeps that string in get_config(), so a
qnoise_factor changed later (update_qnoise_factor / QNoiseScheduler) is not the
same as a constructor constant: clone_model / save+load rebuild the quantizer
with the default factor 1.0 and the outputs differ.  The same layer built from
a quantizer object round-trips correctly.
"""
import sys, os, tempfile
import numpy as np, tensorflow as tf
from tensorflow.keras.layers import Input
from tensorflow.keras.models import Model
from qkeras import QActivation, quantized_relu
from qkeras.utils import clone_model, load_qmodel

rng = np.random.default_rng(0)
x = rng.normal(size=(16, 8)).astype("float32")
fail = False
for label, act in [("object", quantized_relu(3, 1)), ("string", "quantized_relu(3,1)")]:
  i = Input((8,)); m = Model(i, QActivation(act, name="a")(i))
  m.get_layer("a").quantizer.update_qnoise_factor(0.25)
  ref = quantized_relu(3, 1, qnoise_factor=0.25)(x).numpy()
  ok_self = np.allclose(m(x).numpy(), ref)
  c = clone_model(m)
  path = os.path.join(tempfile.mkdtemp(), "m.h5"); m.save(path); l = load_qmodel(path, compile=False)
  ok_clone = np.allclose(c(x).numpy(), ref); ok_load = np.allclose(l(x).numpy(), ref)
  print("QActivation(%s): model ok=%s  clone ok=%s (factor %s)  h5 reload ok=%s (factor %s)" % (
      label, ok_self, ok_clone, c.get_layer("a").quantizer.qnoise_factor,
      ok_load, l.get_layer("a").quantizer.qnoise_factor))
  fail |= not (ok_self and ok_clone and ok_load)
print("FAIL" if fail else "PASS")
sys.exit(1 if fail else 0)
