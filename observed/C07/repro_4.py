"""C07 / QNoiseScheduler + QAdaptiveActivation.

QAdaptiveActivation's quantizer has the qnoise knob and is picked up by the
scheduler, but the layer rewrites the factor on every call:
 * functional model, graph mode: fit() crashes in QNoiseScheduler.on_train_begin
   (the layer left a symbolic tensor in quantizer.qnoise_factor);
 * Sequential model built lazily, graph mode: fit() crashes while tracing the
   train step (TypeError in BaseQuantizer.build);
 * same Sequential model with run_eagerly=True: training runs, but the factor is 1.0 at every step although
   the scheduler's value is 0 before `start`.
"""
import sys
import numpy as np, tensorflow as tf
from tensorflow.keras.layers import Input, Dense
from tensorflow.keras.models import Model, Sequential
from qkeras import QAdaptiveActivation
from qkeras.callbacks import QNoiseScheduler

rng = np.random.default_rng(0)
x = rng.normal(size=(16, 8)).astype("float32"); y = np.zeros((16, 8), "float32")
fail = False


def build():
  i = Input((8,)); o = Dense(8)(i)
  o = QAdaptiveActivation("quantized_relu", 4, quantization_delay=0, name="qa")(o)
  return Model(i, o)


# (a) graph mode
m = build(); m.compile("sgd", "mse")
try:
  m.fit(x, y, batch_size=2, epochs=1, verbose=0)       # trains fine without callback
  m = build(); m.compile("sgd", "mse")
  m.fit(x, y, batch_size=2, epochs=1, verbose=0,
        callbacks=[QNoiseScheduler(start=4, finish=6, freq_type="step")])
  print("graph mode: fit ran")
except Exception as e:  # pylint: disable=broad-except
  print("graph mode: fit with QNoiseScheduler raised", type(e).__name__, str(e)[:110])
  fail = True



def build_seq():
  return Sequential([Dense(8), QAdaptiveActivation(
      "quantized_relu", 4, quantization_delay=0, name="qa")])


# (b) lazily built Sequential, graph mode
m = build_seq(); m.compile("sgd", "mse")
try:
  m.fit(x, y, batch_size=2, epochs=1, verbose=0,
        callbacks=[QNoiseScheduler(start=4, finish=6, freq_type="step")])
  print("sequential graph mode: fit ran")
except Exception as e:  # pylint: disable=broad-except
  print("sequential graph mode: fit with QNoiseScheduler raised", type(e).__name__)
  fail = True

# (c) eager mode
m = build_seq(); m.compile("sgd", "mse", run_eagerly=True)
q = m.get_layer("qa").quantizer
seen = []


class Rec(tf.keras.callbacks.Callback):
  def on_train_batch_end(self, batch, logs=None):
    seen.append(float(tf.keras.backend.get_value(q.qnoise_factor)))


cb = QNoiseScheduler(start=4, finish=6, freq_type="step")
m.fit(x, y, batch_size=2, epochs=1, verbose=0, callbacks=[cb, Rec()])
expected = [cb.calculate_qnoise_factor(s) for s in range(8)]
print("schedule                    :", np.round(expected, 3))
print("factor used by the quantizer:", np.round(seen, 3))
print("quantizer is in cb.quantizers:", any(q is c for c in cb.quantizers))
fail |= not np.allclose(seen, expected)
print("FAIL" if fail else "PASS")
sys.exit(1 if fail else 0)
