"""C07 / QNoiseScheduler: quantizers inside a nested (sub-)model are never driven.

The scheduler must apply the factor to every quantizer of the model that has the
knob and the factor must be 0 before `start`.  With a nested Sequential/Model the
inner quantizers keep qnoise_factor == 1.0 (fully quantized) for the whole run.
"""
import sys
import numpy as np, tensorflow as tf
from tensorflow.keras.layers import Input
from tensorflow.keras.models import Model, Sequential
from qkeras import QDense, QActivation, quantized_bits, quantized_relu
from qkeras.callbacks import QNoiseScheduler


def build(f):
  qb = lambda: quantized_bits(4, 0, 1, qnoise_factor=f)
  inner = Sequential([
      QDense(6, kernel_quantizer=qb(), bias_quantizer=qb(), input_shape=(8,),
             name="inner_dense"),
      QActivation(quantized_relu(3, 1, qnoise_factor=f), name="inner_act"),
  ], name="inner")
  i = Input((8,))
  x = inner(i)
  x = QDense(2, kernel_quantizer=qb(), bias_quantizer=qb(), name="outer_dense")(x)
  return Model(i, x)


tf.keras.utils.set_random_seed(0)
rng = np.random.default_rng(0)
x = rng.normal(size=(16, 8)).astype("float32")
y = np.zeros((16, 2), "float32")

m = build(1.0)
m.compile(tf.keras.optimizers.SGD(0.0), "mse")   # lr 0: weights stay put
w = m.get_weights()

inner = m.get_layer("inner")
watched = {
    "outer_dense.kernel": m.get_layer("outer_dense").kernel_quantizer_internal,
    "inner_dense.kernel": inner.get_layer("inner_dense").kernel_quantizer_internal,
    "inner_dense.bias": inner.get_layer("inner_dense").bias_quantizer_internal,
    "inner_act": inner.get_layer("inner_act").quantizer,
}
seen = {k: [] for k in watched}


class Rec(tf.keras.callbacks.Callback):
  def on_train_batch_end(self, batch, logs=None):
    for k, q in watched.items():
      seen[k].append(float(tf.keras.backend.get_value(q.qnoise_factor)))


cb = QNoiseScheduler(start=4, finish=6, freq_type="step")
m.fit(x, y, batch_size=2, epochs=1, verbose=0, callbacks=[cb, Rec()])
expected = [cb.calculate_qnoise_factor(s) for s in range(8)]
print("schedule            :", np.round(expected, 3))
fail = False
for k, v in seen.items():
  ok = np.allclose(v, expected)
  print("%-20s: %s %s" % (k, np.round(v, 3), "" if ok else "<-- not driven"))
  fail |= not ok

# Observable output: put every quantizer the scheduler knows at 0 -> model must
# equal the same model built with qnoise_factor=0.0 constants (float model).
for q in cb.quantizers:
  q.update_qnoise_factor(0.0)
ref = build(0.0); ref.set_weights(w)
d = float(np.abs(m(x).numpy() - ref(x).numpy()).max())
print("max |scheduler(f=0) - constructor(f=0)| =", d)
fail |= d > 1e-5
print("FAIL" if fail else "PASS")
sys.exit(1 if fail else 0)
