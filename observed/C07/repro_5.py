"""C07 / QNoiseScheduler has no effect on a model that was already trained once.

If model.fit() ran before (e.g. a warm-up without the callback) the cached
train_function has the Python-float qnoise_factor (1.0) baked in.  The scheduler
then turns the quantizers into variables and sets them to 0, but the training
step keeps computing with full quantization: the factor the scheduler reports
(0 before `start`) is not the factor that is applied.
"""
import sys
import numpy as np, tensorflow as tf
from tensorflow.keras.layers import Input, Dense
from tensorflow.keras.models import Model
from qkeras import QActivation, quantized_bits
from qkeras.callbacks import QNoiseScheduler

rng = np.random.default_rng(0)
x = rng.normal(size=(16, 8)).astype("float32"); y = np.zeros((16, 2), "float32")


def build():
  i = Input((8,))
  h = QActivation(quantized_bits(3, 0, 1), name="qa")(i)   # second output = qa(x)
  o = Dense(2, name="d")(h)
  m = Model(i, [o, h])
  m.compile(tf.keras.optimizers.SGD(0.0), "mse")
  return m


def qa_loss_with_scheduler(warm_up):
  m = build()
  if warm_up:
    m.fit(x, [y, x], batch_size=4, epochs=1, verbose=0)
  cb = QNoiseScheduler(start=100, finish=200, freq_type="step")  # never starts
  h = m.fit(x, [y, x], batch_size=4, epochs=1, verbose=0, callbacks=[cb])
  f = float(m.get_layer("qa").quantizer.qnoise_factor.numpy())
  return f, h.history["qa_loss"][0]

# qa_loss = mse(x, qa(x)) must be 0 when the factor is 0 (qa is the identity).
f0, l0 = qa_loss_with_scheduler(False)
f1, l1 = qa_loss_with_scheduler(True)
print("fresh model     : factor=%.1f  mse(x, qa(x)) in training = %.6f" % (f0, l0))
print("after a warm-up : factor=%.1f  mse(x, qa(x)) in training = %.6f" % (f1, l1))
fail = l1 > 1e-9 or l0 > 1e-9

# Same staleness for inference: predict() traced before the scheduler ran keeps
# the old constant although the quantizer now reports factor 0.
m = build()
m.predict(x, verbose=0)
m.fit(x, [y, x], batch_size=4, epochs=1, verbose=0,
      callbacks=[QNoiseScheduler(start=100, finish=200, freq_type="step")])
f = float(m.get_layer("qa").quantizer.qnoise_factor.numpy())
p = m.predict(x, verbose=0)[1]; e = m(x)[1].numpy()
print("predict() traced earlier: factor=%.1f  predict: qa(x)==x %s   direct call: qa(x)==x %s" % (
    f, np.allclose(p, x), np.allclose(e, x)))
fail |= not np.allclose(p, x)
print("FAIL" if fail else "PASS")
sys.exit(1 if fail else 0)
