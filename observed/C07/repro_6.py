"""C07 / QNoiseScheduler reused for a second model keeps driving the first model.

on_train_begin only collects quantizers `if not self.quantizers`; when the same
callback object is passed to fit() of another model, that model's quantizers
are never touched (stay 1.0 before `start`).
"""
import sys
import numpy as np, tensorflow as tf
from tensorflow.keras.layers import Input, Dense
from tensorflow.keras.models import Model
from qkeras import QActivation, quantized_relu
from qkeras.callbacks import QNoiseScheduler

rng = np.random.default_rng(0)
x = rng.normal(size=(16, 8)).astype("float32"); y = np.zeros((16, 8), "float32")


def build():
  i = Input((8,)); h = Dense(8)(i)
  h = QActivation(quantized_relu(3, 1), name="a")(h)
  m = Model(i, h); m.compile("sgd", "mse"); return m


cb = QNoiseScheduler(start=50, finish=100, freq_type="step")
m1 = build(); m1.fit(x, y, batch_size=4, epochs=1, verbose=0, callbacks=[cb])
m2 = build(); seen = []


class Rec(tf.keras.callbacks.Callback):
  def on_train_batch_end(self, batch, logs=None):
    seen.append(float(tf.keras.backend.get_value(
        m2.get_layer("a").quantizer.qnoise_factor)))


m2.fit(x, y, batch_size=4, epochs=1, verbose=0, callbacks=[cb, Rec()])
print("scheduler value (steps 4..7 < start=50):", cb.qnoise_factor)
print("factor of model 2's quantizer          :", seen)
fail = not np.allclose(seen, 0.0)
print("FAIL" if fail else "PASS")
sys.exit(1 if fail else 0)
