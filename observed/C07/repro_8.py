"""C07 / variable-backed mode of quantized_po2 / quantized_relu_po2 differs from constant mode.

These two quantizers do not cast their input to float32.  With a Python-float
factor they accept float64 (numpy default) / float16 inputs; with
use_variables=True the float32 qnoise_factor variable is multiplied with the
non-float32 tensor and the call raises, so "constructor constant" and
"variable-backed" do not give the same result.  (quantized_bits, quantized_relu,
quantized_linear, quantized_hswish cast and are fine.)
"""
import sys
import numpy as np, tensorflow as tf
from qkeras.quantizers import quantized_po2, quantized_relu_po2

x = np.random.default_rng(0).normal(size=(4, 5))    # float64
fail = False
for cls in (quantized_po2, quantized_relu_po2):
  for dt in ("float64", "float16"):
    xin = x.astype(dt)
    const = cls(4, qnoise_factor=0.5)(xin).numpy()
    try:
      var = cls(4, qnoise_factor=0.5, use_variables=True)(xin).numpy()
      same = np.allclose(const, var)
      print(cls.__name__, dt, "variable mode equals constant mode:", same)
      fail |= not same
    except Exception as e:  # pylint: disable=broad-except
      print(cls.__name__, dt, "constant mode ok, variable mode raised", type(e).__name__)
      fail = True
print("FAIL" if fail else "PASS")
sys.exit(1 if fail else 0)
