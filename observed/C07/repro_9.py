"""C07 / minor API-level violations.

(a) QNoiseScheduler(exponent=0): the factor at the finish step itself is 0, not 1
    (1 - 0**0 == 0); it only becomes 1 one update later.
(b) update_qnoise_factor(tf.Variable) on a quantizer that is not variable-backed
    raises (uses the TF1-only Variable.eval()), so the update API cannot be fed
    a variable although the code has a branch for it.
"""
import sys
import numpy as np, tensorflow as tf
from tensorflow.keras.layers import Input
from tensorflow.keras.models import Model
from qkeras import QActivation, quantized_bits
from qkeras.callbacks import QNoiseScheduler

fail = False
i = Input((4,)); m = Model(i, QActivation(quantized_bits(3, 0, 1))(i))
q = m.layers[1].quantizer
cb = QNoiseScheduler(start=2, finish=5, freq_type="step", exponent=0.0)
cb.set_model(m); cb.on_train_begin()
vals = []
for s in range(8):
  cb.on_train_batch_begin(s); vals.append(float(q.qnoise_factor.numpy()))
print("(a) exponent=0, start=2, finish=5, factor per step:", vals)
if vals[5] != 1.0:
  print("    factor at the finish step is", vals[5]); fail = True

q2 = quantized_bits(3, 0, 1); q2(np.ones((2, 2), "float32"))
try:
  q2.update_qnoise_factor(tf.Variable(0.5))
  print("(b) ok, factor =", q2.qnoise_factor)
  fail |= abs(float(q2.qnoise_factor) - 0.5) > 1e-7
except Exception as e:  # pylint: disable=broad-except
  print("(b) update_qnoise_factor(tf.Variable(0.5)) raised", type(e).__name__, e); fail = True
print("FAIL" if fail else "PASS")
sys.exit(1 if fail else 0)
