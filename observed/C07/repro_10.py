"""C07 / QNoiseScheduler(freq_type="step") counts callback invocations, not steps.

update_qnoise_factor() ignores the `batch` index Keras passes and uses its own
num_iters counter.  With model.compile(steps_per_execution=N) Keras calls
on_train_batch_begin once per N training steps, so the schedule runs N times
too slowly: training steps at/after `finish` are still run with factor < 1.
"""
import sys
import numpy as np, tensorflow as tf
from tensorflow.keras.layers import Input, Dense
from tensorflow.keras.models import Model
from qkeras import QActivation, quantized_relu
from qkeras.callbacks import QNoiseScheduler

rng = np.random.default_rng(0)
x = rng.normal(size=(32, 8)).astype("float32"); y = np.zeros((32, 8), "float32")
i = Input((8,)); h = Dense(8)(i); h = QActivation(quantized_relu(3, 1), name="a")(h)
m = Model(i, h)
m.compile("sgd", "mse", steps_per_execution=4)
q = m.get_layer("a").quantizer
seen = []


class Rec(tf.keras.callbacks.Callback):
  def on_train_batch_begin(self, batch, logs=None):
    # (training step about to run, factor that will be used for it)
    seen.append((int(m.optimizer.iterations.numpy()),
                 float(tf.keras.backend.get_value(q.qnoise_factor))))


START, FINISH = 2, 4
cb = QNoiseScheduler(start=START, finish=FINISH, freq_type="step")
m.fit(x, y, batch_size=2, epochs=1, verbose=0, callbacks=[cb, Rec()])
fail = False
for step, f in seen:
  bad = (step < START and f != 0.0) or (step >= FINISH and f != 1.0)
  print("training step %2d..%2d  factor %.3f %s" % (
      step, step + 3, f, "<-- step >= finish but factor != 1" if bad else ""))
  fail |= bad

# Variant: freq_type="epoch" ignores the epoch index too, so fit(initial_epoch=5)
# restarts the schedule at 0 although epochs 5.. are past `finish` (unless the
# user repeats the number in initial_step_or_epoch).
m2 = Model(i, h); m2.compile("sgd", "mse"); seen2 = []


class Rec2(tf.keras.callbacks.Callback):
  def on_train_batch_begin(self, batch, logs=None):
    if batch == 0:
      seen2.append(float(tf.keras.backend.get_value(q.qnoise_factor)))


m2.fit(x, y, batch_size=8, initial_epoch=5, epochs=8, verbose=0,
       callbacks=[QNoiseScheduler(start=0, finish=3, freq_type="epoch"), Rec2()])
print("epochs 5,6,7 with start=0, finish=3: factors", np.round(seen2, 3))
fail |= not np.allclose(seen2, 1.0)
print("FAIL" if fail else "PASS")
sys.exit(1 if fail else 0)
