"""C07 / QNoiseScheduler: quantizers of a layer held by a wrapper layer are never driven.

TimeDistributed(QDense), tf.keras.layers.RNN(QLSTMCell) and
tf.keras.layers.Bidirectional(QLSTM) keep their quantizers at the constructor
value (1.0 = fully quantized) while the scheduler says 0 (before `start`).
"""
import sys
import numpy as np, tensorflow as tf
from tensorflow.keras.layers import Input, TimeDistributed, RNN, Bidirectional, Flatten
from tensorflow.keras.models import Model
from qkeras import QDense, QLSTM, QLSTMCell, quantized_bits, quantized_relu
from qkeras.callbacks import QNoiseScheduler

qb = lambda: quantized_bits(4, 0, 1)
rng = np.random.default_rng(0)
fail = False


def run(name, model, watched, x, y):
  global fail
  model.compile(tf.keras.optimizers.SGD(0.0), "mse")
  seen = {k: [] for k in watched}

  class Rec(tf.keras.callbacks.Callback):
    def on_train_batch_end(self, batch, logs=None):
      for k, q in watched.items():
        seen[k].append(float(tf.keras.backend.get_value(q.qnoise_factor)))

  cb = QNoiseScheduler(start=3, finish=5, freq_type="step")
  model.fit(x, y, batch_size=2, epochs=1, verbose=0, callbacks=[cb, Rec()])
  expected = [cb.calculate_qnoise_factor(s) for s in range(len(x) // 2)]
  print("==", name, "schedule", np.round(expected, 3))
  for k, v in seen.items():
    ok = np.allclose(v, expected)
    print("   %-28s %s %s" % (k, np.round(v, 3), "" if ok else "<-- not driven"))
    fail |= not ok


# 1. TimeDistributed(QDense)
i = Input((3, 8))
td = TimeDistributed(QDense(4, kernel_quantizer=qb(), bias_quantizer=qb(),
                            activation=quantized_relu(3, 1)))
o = QDense(2, kernel_quantizer=qb(), bias_quantizer=qb(), name="head")(Flatten()(td(i)))
m = Model(i, o)
run("TimeDistributed(QDense)", m,
    {"head.kernel": m.get_layer("head").kernel_quantizer_internal,
     "td.layer.kernel": td.layer.kernel_quantizer_internal,
     "td.layer.activation": td.layer.activation},
    rng.normal(size=(12, 3, 8)).astype("float32"), np.zeros((12, 2), "float32"))

# 2. keras RNN wrapping a QLSTMCell
i = Input((5, 4))
rnn = RNN(QLSTMCell(3, kernel_quantizer=qb(), recurrent_quantizer=qb(), bias_quantizer=qb()))
o = QDense(2, kernel_quantizer=qb(), bias_quantizer=qb(), name="head")(rnn(i))
m = Model(i, o)
run("RNN(QLSTMCell)", m,
    {"head.kernel": m.get_layer("head").kernel_quantizer_internal,
     "cell.kernel": rnn.cell.kernel_quantizer_internal,
     "cell.recurrent": rnn.cell.recurrent_quantizer_internal},
    rng.normal(size=(12, 5, 4)).astype("float32"), np.zeros((12, 2), "float32"))

# 3. keras Bidirectional wrapping a QLSTM
i = Input((5, 4))
bi = Bidirectional(QLSTM(3, kernel_quantizer=qb(), recurrent_quantizer=qb(), bias_quantizer=qb()))
o = QDense(2, kernel_quantizer=qb(), bias_quantizer=qb(), name="head")(bi(i))
m = Model(i, o)
run("Bidirectional(QLSTM)", m,
    {"head.kernel": m.get_layer("head").kernel_quantizer_internal,
     "forward.kernel": bi.forward_layer.cell.kernel_quantizer_internal,
     "backward.kernel": bi.backward_layer.cell.kernel_quantizer_internal},
    rng.normal(size=(12, 5, 4)).astype("float32"), np.zeros((12, 2), "float32"))

print("FAIL" if fail else "PASS")
sys.exit(1 if fail else 0)
