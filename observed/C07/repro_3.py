"""C07 / QNoiseScheduler: activation quantizers of recurrent layers are skipped.

* QLSTM / QGRU: `recurrent_activation` (a quantizer with the knob) is never driven.
* QBidirectional(QLSTM): `activation` and `recurrent_activation` of the forward and
  backward layers (the ones actually executed) are never driven; the scheduler
  only touches the unused template layer `QBidirectional.layer`.
"""
import sys
import numpy as np, tensorflow as tf
from tensorflow.keras.layers import Input
from tensorflow.keras.models import Model
from qkeras import QDense, QLSTM, QGRU, QBidirectional, quantized_bits, quantized_relu
from qkeras.callbacks import QNoiseScheduler

qb = lambda: quantized_bits(4, 0, 1)
rng = np.random.default_rng(0)
x = rng.normal(size=(12, 5, 4)).astype("float32")
y = np.zeros((12, 2), "float32")
fail = False


def kw():
  return dict(kernel_quantizer=qb(), recurrent_quantizer=qb(), bias_quantizer=qb(),
              state_quantizer=qb(), activation=quantized_bits(4, 0, 1),
              recurrent_activation=quantized_relu(4, 0))


def run(name, model, watched):
  global fail
  model.compile(tf.keras.optimizers.SGD(0.0), "mse")
  seen = {k: [] for k in watched}

  class Rec(tf.keras.callbacks.Callback):
    def on_train_batch_end(self, batch, logs=None):
      for k, q in watched.items():
        seen[k].append(float(tf.keras.backend.get_value(q.qnoise_factor)))

  cb = QNoiseScheduler(start=3, finish=5, freq_type="step")
  model.fit(x, y, batch_size=2, epochs=1, verbose=0, callbacks=[cb, Rec()])
  expected = [cb.calculate_qnoise_factor(s) for s in range(6)]
  print("==", name, "schedule", np.round(expected, 3))
  for k, v in seen.items():
    ok = np.allclose(v, expected)
    print("   %-34s %s %s" % (k, np.round(v, 3), "" if ok else "<-- not driven"))
    fail |= not ok


for cls in (QLSTM, QGRU):
  i = Input((5, 4)); l = cls(3, **kw())
  o = QDense(2, kernel_quantizer=qb(), bias_quantizer=qb())(l(i))
  run(cls.__name__, Model(i, o),
      {"kernel_quantizer": l.cell.kernel_quantizer_internal,
       "activation": l.cell.activation,
       "recurrent_activation": l.cell.recurrent_activation})

i = Input((5, 4)); bi = QBidirectional(QLSTM(3, **kw()))
o = QDense(2, kernel_quantizer=qb(), bias_quantizer=qb())(bi(i))
run("QBidirectional(QLSTM)", Model(i, o),
    {"forward.kernel_quantizer": bi.forward_layer.cell.kernel_quantizer_internal,
     "forward.activation": bi.forward_layer.cell.activation,
     "forward.recurrent_activation": bi.forward_layer.cell.recurrent_activation,
     "backward.activation": bi.backward_layer.cell.activation,
     "backward.recurrent_activation": bi.backward_layer.cell.recurrent_activation})

print("FAIL" if fail else "PASS")
sys.exit(1 if fail else 0)
