"""A Bidirectional layer that is outside the limits (or outside layer_indexes)
is still converted to QBidirectional (around an unquantized cell) and build()
then crashes in print_qmodel_summary."""
# ---- helpers (same in every repro) ----
import contextlib, io, sys
import tensorflow as tf
import keras_tuner as kt
from qkeras.autoqkeras.autoqkeras_internal import AutoQKHyperModel
from qkeras.autoqkeras.forgiving_metrics import ForgivingFactorBits
from qkeras.autoqkeras.quantization_config import default_quantization_config


def target(**kw):
  p = dict(delta_p=8.0, delta_n=8.0, rate=2.0, stress=1.0, input_bits=8,
           output_bits=8, ref_bits=8,
           config={"default": ["parameters", "activations"]})
  p.update(kw)
  return ForgivingFactorBits(**p)


def hyper(model, limit, tgt=None, qc=None, **kw):
  model.compile(optimizer=tf.keras.optimizers.Adam(1e-3), loss="mse")
  kw.setdefault("tune_filters_exceptions", "^$")   # matches no layer name
  with contextlib.redirect_stdout(io.StringIO()):
    return AutoQKHyperModel(model, ["acc"], None, tgt or target(), limit=limit,
                            quantization_config=qc or default_quantization_config,
                            **kw)


def build(hm, values=None):
  hp = kt.HyperParameters()
  hp.values.update(values or {})
  with contextlib.redirect_stdout(io.StringIO()):
    qm = hm.build(hp)
  return qm, hp


def space(hp):
  return {h.name: list(getattr(h, "values", None) or [h.value]) for h in hp.space}


def finish(failed):
  print("FAIL" if failed else "PASS")
  sys.exit(1 if failed else 0)
# ---- repro ----
L = tf.keras.layers
failed = False
for label, limit, idx in [
    ("Bidirectional not in limit", {"Dense": [4, 4, 4]}, None),
    ("Bidirectional not in layer_indexes",
     {"Dense": [4, 4, 4], "Bidirectional": [4, 4, 4, 4]}, [1])]:
  m = tf.keras.Sequential([
      L.Input((5, 3)), L.Bidirectional(L.SimpleRNN(4), name="bi"),
      L.Dense(2, name="d")])
  hm = hyper(m, limit, layer_indexes=idx)
  with contextlib.redirect_stdout(io.StringIO()):
    q, _ = hm.quantize_model(kt.HyperParameters())
  cls = q.get_layer("bi").__class__.__name__
  inner = q.get_layer("bi").forward_layer.__class__.__name__
  print("%s: trial layer 'bi' is %s(%s), reference is Bidirectional(SimpleRNN)"
        % (label, cls, inner))
  failed |= cls != "Bidirectional"
  try:
    build(hm)
    print("  build() ok")
  except Exception as e:  # pylint: disable=broad-except
    print("  build() raises", type(e).__name__, e)
    failed = True
finish(failed)
