"""Size model: the output of a Dense(softmax) / Dense(sigmoid) layer is counted
at ref_bits in the reference (stock Dense) but at output_bits (softmax) once the
layer is a QDense -- although no quantizer is applied to that tensor in either
case.  With every chosen quantizer at the reference width the trial size differs
from the reference size and the bonus is not zero."""
# ---- helpers (same in every repro) ----
import contextlib, io, sys
import tensorflow as tf
import keras_tuner as kt
from qkeras.autoqkeras.autoqkeras_internal import AutoQKHyperModel
from qkeras.autoqkeras.forgiving_metrics import ForgivingFactorBits
from qkeras.autoqkeras.quantization_config import default_quantization_config


def target(**kw):
  p = dict(delta_p=8.0, delta_n=8.0, rate=2.0, stress=1.0, input_bits=8,
           output_bits=8, ref_bits=8,
           config={"default": ["parameters", "activations"]})
  p.update(kw)
  return ForgivingFactorBits(**p)


def hyper(model, limit, tgt=None, qc=None, **kw):
  model.compile(optimizer=tf.keras.optimizers.Adam(1e-3), loss="mse")
  kw.setdefault("tune_filters_exceptions", "^$")   # matches no layer name
  with contextlib.redirect_stdout(io.StringIO()):
    return AutoQKHyperModel(model, ["acc"], None, tgt or target(), limit=limit,
                            quantization_config=qc or default_quantization_config,
                            **kw)


def build(hm, values=None):
  hp = kt.HyperParameters()
  hp.values.update(values or {})
  with contextlib.redirect_stdout(io.StringIO()):
    qm = hm.build(hp)
  return qm, hp


def space(hp):
  return {h.name: list(getattr(h, "values", None) or [h.value]) for h in hp.space}


def finish(failed):
  print("FAIL" if failed else "PASS")
  sys.exit(1 if failed else 0)
# ---- repro ----
L = tf.keras.layers
failed = False
for ob in [8, 16, 4]:
  m = tf.keras.Sequential([
      L.Input((8,)), L.Dense(6, activation="relu", name="d1"),
      L.Dense(4, activation="softmax", name="d2")])
  t = target(output_bits=ob, ref_bits=8)
  hm = hyper(m, {"Dense": [8, 8, 8]}, tgt=t)
  qm, hp = build(hm, {                       # everything at 8 bits == ref_bits
      "d1_kernel_quantizer": "quantized_bits(8,0,1)",
      "d2_kernel_quantizer": "quantized_bits(8,0,1)",
      "d1_bias_quantizer": "quantized_bits(8,3,1)",
      "d2_bias_quantizer": "quantized_bits(8,3,1)",
      "d1_activation_quantizer": "quantized_relu(8,2)"})
  ref = t.reference_size_dict["d2"]["activations"]
  tri = t.trial_size_dict["d2"]["activations"]
  print("output_bits=%2d: softmax tensor (4 elements) reference=%d trial=%d | "
        "reference_size=%d trial_size=%d delta=%+.5f"
        % (ob, ref, tri, hm.reference_size, hm.trial_size, float(t.delta())))
  failed |= int(ref) != int(tri)
finish(failed)
