"""ForgivingFactorBits.get_reference caches the first model's size for ever
(hasattr check): a target object reused for a second reference model reports
the stale size, so a trial equal in size to its own reference gets delta != 0."""
# ---- helpers (same in every repro) ----
import contextlib, io, sys
import tensorflow as tf
import keras_tuner as kt
from qkeras.autoqkeras.autoqkeras_internal import AutoQKHyperModel
from qkeras.autoqkeras.forgiving_metrics import ForgivingFactorBits
from qkeras.autoqkeras.quantization_config import default_quantization_config


def target(**kw):
  p = dict(delta_p=8.0, delta_n=8.0, rate=2.0, stress=1.0, input_bits=8,
           output_bits=8, ref_bits=8,
           config={"default": ["parameters", "activations"]})
  p.update(kw)
  return ForgivingFactorBits(**p)


def hyper(model, limit, tgt=None, qc=None, **kw):
  model.compile(optimizer=tf.keras.optimizers.Adam(1e-3), loss="mse")
  kw.setdefault("tune_filters_exceptions", "^$")   # matches no layer name
  with contextlib.redirect_stdout(io.StringIO()):
    return AutoQKHyperModel(model, ["acc"], None, tgt or target(), limit=limit,
                            quantization_config=qc or default_quantization_config,
                            **kw)


def build(hm, values=None):
  hp = kt.HyperParameters()
  hp.values.update(values or {})
  with contextlib.redirect_stdout(io.StringIO()):
    qm = hm.build(hp)
  return qm, hp


def space(hp):
  return {h.name: list(getattr(h, "values", None) or [h.value]) for h in hp.space}


def finish(failed):
  print("FAIL" if failed else "PASS")
  sys.exit(1 if failed else 0)
# ---- repro ----
L = tf.keras.layers
t = target()
m1 = tf.keras.Sequential([L.Input((10,)), L.Dense(3, activation="relu", name="d")])
m2 = tf.keras.Sequential([L.Input((10,)), L.Dense(30, activation="relu", name="d")])
h1 = hyper(m1, {"Dense": [8, 8, 8]}, tgt=t)
h2 = hyper(m2, {"Dense": [8, 8, 8]}, tgt=t)       # same target object
fresh = target().get_reference(m2)
print("reference size of model 2: hypermodel says", h2.reference_size,
      "fresh target says", fresh)
qm, hp = build(h2, {"d_kernel_quantizer": "quantized_bits(8,0,1)",
                    "d_bias_quantizer": "quantized_bits(8,3,1)",
                    "d_activation_quantizer": "quantized_relu(8,2)"})
print("all-8-bit trial of model 2: trial_size", h2.trial_size,
      "delta", float(t.delta()), "(expected 0)")
finish(h2.reference_size != fresh or float(t.delta()) != 0.0)
