"""tune_filters='block': a Reshape layer listed in the limit gets its last
dimension set to min(int(c * f), 1) == 1 -> trial architecture differs from the
reference even for network_filters == 1.0."""
# ---- helpers (same in every repro) ----
import contextlib, io, sys
import tensorflow as tf
import keras_tuner as kt
from qkeras.autoqkeras.autoqkeras_internal import AutoQKHyperModel
from qkeras.autoqkeras.forgiving_metrics import ForgivingFactorBits
from qkeras.autoqkeras.quantization_config import default_quantization_config


def target(**kw):
  p = dict(delta_p=8.0, delta_n=8.0, rate=2.0, stress=1.0, input_bits=8,
           output_bits=8, ref_bits=8,
           config={"default": ["parameters", "activations"]})
  p.update(kw)
  return ForgivingFactorBits(**p)


def hyper(model, limit, tgt=None, qc=None, **kw):
  model.compile(optimizer=tf.keras.optimizers.Adam(1e-3), loss="mse")
  kw.setdefault("tune_filters_exceptions", "^$")   # matches no layer name
  with contextlib.redirect_stdout(io.StringIO()):
    return AutoQKHyperModel(model, ["acc"], None, tgt or target(), limit=limit,
                            quantization_config=qc or default_quantization_config,
                            **kw)


def build(hm, values=None):
  hp = kt.HyperParameters()
  hp.values.update(values or {})
  with contextlib.redirect_stdout(io.StringIO()):
    qm = hm.build(hp)
  return qm, hp


def space(hp):
  return {h.name: list(getattr(h, "values", None) or [h.value]) for h in hp.space}


def finish(failed):
  print("FAIL" if failed else "PASS")
  sys.exit(1 if failed else 0)
# ---- repro ----
L = tf.keras.layers
m = tf.keras.Sequential([
    L.Input((4, 4, 1)),
    L.Conv2D(8, 3, padding="same", activation="relu", name="c"),
    L.Reshape((-1, 8), name="rs"),       # (16, 8)
    L.Dense(3, name="d")])               # kernel (8, 3)
hm = hyper(m, {"Conv2D": [4, 4, 4], "Dense": [4, 4, 4], "rs": []},
           tune_filters="block")
failed = False
for f in [1.0, 0.5, 2.0]:
  qm, hp = build(hm, {"network_filters": f})
  conv_ch = qm.get_layer("c").output.shape[-1]
  rs = qm.get_layer("rs").output.shape.as_list()[1:]
  dk = qm.get_layer("d").kernel.shape.as_list()
  expect = [16, int(8 * f)]
  print("network_filters=%s conv filters=%d reshape out=%s (expected %s) "
        "dense kernel=%s" % (f, conv_ch, rs, expect, dk))
  failed |= rs != expect
# fixed-size target shape: every trial fails to build at all
m2 = tf.keras.Sequential([
    L.Input((4, 4, 1)), L.Conv2D(8, 3, padding="same", name="c"),
    L.Reshape((16, 8), name="rs"), L.Dense(3, name="d")])
hm2 = hyper(m2, {"Conv2D": [4, 4, 4], "Dense": [4, 4, 4], "rs": []},
            tune_filters="block")
try:
  build(hm2, {"network_filters": 1.0})
except Exception as e:  # pylint: disable=broad-except
  print("fixed Reshape((16, 8)), network_filters=1.0:", type(e).__name__,
        str(e).splitlines()[-0][:60], "...")
  failed = True
finish(failed)
