"""Linear Activation layers are limited by the KERNEL limit (index 0) instead
of the activation limit (index -1)."""
# ---- helpers (same in every repro) ----
import contextlib, io, sys
import tensorflow as tf
import keras_tuner as kt
from qkeras.autoqkeras.autoqkeras_internal import AutoQKHyperModel
from qkeras.autoqkeras.forgiving_metrics import ForgivingFactorBits
from qkeras.autoqkeras.quantization_config import default_quantization_config


def target(**kw):
  p = dict(delta_p=8.0, delta_n=8.0, rate=2.0, stress=1.0, input_bits=8,
           output_bits=8, ref_bits=8,
           config={"default": ["parameters", "activations"]})
  p.update(kw)
  return ForgivingFactorBits(**p)


def hyper(model, limit, tgt=None, qc=None, **kw):
  model.compile(optimizer=tf.keras.optimizers.Adam(1e-3), loss="mse")
  kw.setdefault("tune_filters_exceptions", "^$")   # matches no layer name
  with contextlib.redirect_stdout(io.StringIO()):
    return AutoQKHyperModel(model, ["acc"], None, tgt or target(), limit=limit,
                            quantization_config=qc or default_quantization_config,
                            **kw)


def build(hm, values=None):
  hp = kt.HyperParameters()
  hp.values.update(values or {})
  with contextlib.redirect_stdout(io.StringIO()):
    qm = hm.build(hp)
  return qm, hp


def space(hp):
  return {h.name: list(getattr(h, "values", None) or [h.value]) for h in hp.space}


def finish(failed):
  print("FAIL" if failed else "PASS")
  sys.exit(1 if failed else 0)
# ---- repro ----
L = tf.keras.layers
m = tf.keras.Sequential([
    L.Input((8,)), L.Dense(6, name="blk_d"), L.Activation("linear", name="blk_lin"),
    L.Dense(4, name="blk_d2"), L.Activation("relu", name="blk_relu")])
# pattern limit: kernel <= 16 bits, bias <= 8 bits, activation <= 4 bits
hm = hyper(m, {"^blk_": [16, 8, 4]})
cfg = default_quantization_config
failed = False
# 1) the search space offered for the linear activation
qm, hp = build(hm)
offered = space(hp)["^blk__linear_quantizer"]
too_wide = [q for q in offered if cfg["linear"][q] > 4]
print("linear activation candidates:", offered)
print("candidates wider than the activation limit 4:", too_wide)
failed |= bool(too_wide)
# 2) an actual trial
qm, hp = build(hm, {"^blk__linear_quantizer": "quantized_bits(16,10)"})
q = qm.get_layer("blk_lin").quantizer
print("trial: blk_lin ->", q, "bits =", q.bits, "(activation limit 4)")
print("trial: blk_relu ->", qm.get_layer("blk_relu").quantizer)
failed |= q.bits > 4
finish(failed)
