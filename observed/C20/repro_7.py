"""Size model: an Activation('linear') tensor counts 0 bits in the reference
(not the reference width) but bits*elements once a quantizer is applied, so
quantizing it to ANY width makes the trial bigger and lowers the score; a wider
quantizer of every other tensor at the reference width then gives delta < 0."""
# ---- helpers (same in every repro) ----
import contextlib, io, sys
import tensorflow as tf
import keras_tuner as kt
from qkeras.autoqkeras.autoqkeras_internal import AutoQKHyperModel
from qkeras.autoqkeras.forgiving_metrics import ForgivingFactorBits
from qkeras.autoqkeras.quantization_config import default_quantization_config


def target(**kw):
  p = dict(delta_p=8.0, delta_n=8.0, rate=2.0, stress=1.0, input_bits=8,
           output_bits=8, ref_bits=8,
           config={"default": ["parameters", "activations"]})
  p.update(kw)
  return ForgivingFactorBits(**p)


def hyper(model, limit, tgt=None, qc=None, **kw):
  model.compile(optimizer=tf.keras.optimizers.Adam(1e-3), loss="mse")
  kw.setdefault("tune_filters_exceptions", "^$")   # matches no layer name
  with contextlib.redirect_stdout(io.StringIO()):
    return AutoQKHyperModel(model, ["acc"], None, tgt or target(), limit=limit,
                            quantization_config=qc or default_quantization_config,
                            **kw)


def build(hm, values=None):
  hp = kt.HyperParameters()
  hp.values.update(values or {})
  with contextlib.redirect_stdout(io.StringIO()):
    qm = hm.build(hp)
  return qm, hp


def space(hp):
  return {h.name: list(getattr(h, "values", None) or [h.value]) for h in hp.space}


def finish(failed):
  print("FAIL" if failed else "PASS")
  sys.exit(1 if failed else 0)
# ---- repro ----
L = tf.keras.layers
m = tf.keras.Sequential([
    L.Input((8,)), L.Dense(6, name="d1"), L.Activation("linear", name="lin"),
    L.Dense(4, name="d2")])
t = target()
hm = hyper(m, {"Dense": [8, 8, 8], "Activation": [8]}, tgt=t)
ref8 = {"d1_kernel_quantizer": "quantized_bits(8,0,1)",
        "d2_kernel_quantizer": "quantized_bits(8,0,1)",
        "d1_bias_quantizer": "quantized_bits(8,3,1)",
        "d2_bias_quantizer": "quantized_bits(8,3,1)"}
failed = False
for q in ["binary", "quantized_bits(4,1)", "quantized_bits(8,2)"]:
  qm, hp = build(hm, dict(ref8, lin_activation_quantizer=q))
  print("lin -> %-20s reference counts %d bits, trial counts %d bits; "
        "reference_size=%d trial_size=%d delta=%+.5f"
        % (q, t.reference_size_dict["lin"]["activations"],
           t.trial_size_dict["lin"]["activations"],
           hm.reference_size, hm.trial_size, float(t.delta())))
  # a 1/4/8-bit tensor can never be larger than the 8-bit reference tensor
  failed |= hm.trial_size > hm.reference_size
finish(failed)
