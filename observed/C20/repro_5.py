"""The tensor role is derived with `"kernel" in head` / `"bias" in head` where
head starts with the LAYER NAME: a layer whose name contains 'kernel' (or
'bias') gets its bias/activation (activation) quantizer from the wrong section
of the quantization configuration and checked against the wrong limit."""
# ---- helpers (same in every repro) ----
import contextlib, io, sys
import tensorflow as tf
import keras_tuner as kt
from qkeras.autoqkeras.autoqkeras_internal import AutoQKHyperModel
from qkeras.autoqkeras.forgiving_metrics import ForgivingFactorBits
from qkeras.autoqkeras.quantization_config import default_quantization_config


def target(**kw):
  p = dict(delta_p=8.0, delta_n=8.0, rate=2.0, stress=1.0, input_bits=8,
           output_bits=8, ref_bits=8,
           config={"default": ["parameters", "activations"]})
  p.update(kw)
  return ForgivingFactorBits(**p)


def hyper(model, limit, tgt=None, qc=None, **kw):
  model.compile(optimizer=tf.keras.optimizers.Adam(1e-3), loss="mse")
  kw.setdefault("tune_filters_exceptions", "^$")   # matches no layer name
  with contextlib.redirect_stdout(io.StringIO()):
    return AutoQKHyperModel(model, ["acc"], None, tgt or target(), limit=limit,
                            quantization_config=qc or default_quantization_config,
                            **kw)


def build(hm, values=None):
  hp = kt.HyperParameters()
  hp.values.update(values or {})
  with contextlib.redirect_stdout(io.StringIO()):
    qm = hm.build(hp)
  return qm, hp


def space(hp):
  return {h.name: list(getattr(h, "values", None) or [h.value]) for h in hp.space}


def finish(failed):
  print("FAIL" if failed else "PASS")
  sys.exit(1 if failed else 0)
# ---- repro ----
L = tf.keras.layers
m = tf.keras.Sequential([
    L.Input((8,)), L.Dense(6, activation="relu", name="kernel_dense"),
    L.Dense(4, activation="relu", name="debias_dense")])
# kernel <= 8 bits, bias <= 4 bits, activation <= 2 bits
hm = hyper(m, {"Dense": [8, 4, 2]})
qm, hp = build(hm)
sp = space(hp)
cfg = default_quantization_config
failed = False
for name, sect, lim in [("kernel_dense_bias_quantizer", "bias", 4),
                        ("kernel_dense_activation_quantizer", "activation", 2),
                        ("debias_dense_activation_quantizer", "activation", 2)]:
  foreign = [q for q in sp[name] if q not in cfg[sect]]
  print(name, "->", sp[name])
  print("   not in the %r section: %s" % (sect, foreign))
  failed |= bool(foreign)
qm, hp = build(hm, {"kernel_dense_activation_quantizer": "quantized_bits(8,0,1)",
                    "kernel_dense_bias_quantizer": "quantized_bits(8,0,1)"})
l = qm.get_layer("kernel_dense")
print("trial: kernel_dense bias ->", l.get_quantizers()[1], "(bias limit 4)")
print("trial: kernel_dense activation ->", l.activation, "(activation limit 2)")
failed |= l.activation.bits > 2 or l.get_quantizers()[1].bits > 4
finish(failed)
