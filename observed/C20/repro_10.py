"""AutoQKHyperModel.groups is only cleared in build(): calling the public
quantize_model(hp) again (e.g. after a build) returns the previous trial's
choice for every pattern group and ignores the new hyper-parameters."""
# ---- helpers (same in every repro) ----
import contextlib, io, sys
import tensorflow as tf
import keras_tuner as kt
from qkeras.autoqkeras.autoqkeras_internal import AutoQKHyperModel
from qkeras.autoqkeras.forgiving_metrics import ForgivingFactorBits
from qkeras.autoqkeras.quantization_config import default_quantization_config


def target(**kw):
  p = dict(delta_p=8.0, delta_n=8.0, rate=2.0, stress=1.0, input_bits=8,
           output_bits=8, ref_bits=8,
           config={"default": ["parameters", "activations"]})
  p.update(kw)
  return ForgivingFactorBits(**p)


def hyper(model, limit, tgt=None, qc=None, **kw):
  model.compile(optimizer=tf.keras.optimizers.Adam(1e-3), loss="mse")
  kw.setdefault("tune_filters_exceptions", "^$")   # matches no layer name
  with contextlib.redirect_stdout(io.StringIO()):
    return AutoQKHyperModel(model, ["acc"], None, tgt or target(), limit=limit,
                            quantization_config=qc or default_quantization_config,
                            **kw)


def build(hm, values=None):
  hp = kt.HyperParameters()
  hp.values.update(values or {})
  with contextlib.redirect_stdout(io.StringIO()):
    qm = hm.build(hp)
  return qm, hp


def space(hp):
  return {h.name: list(getattr(h, "values", None) or [h.value]) for h in hp.space}


def finish(failed):
  print("FAIL" if failed else "PASS")
  sys.exit(1 if failed else 0)
# ---- repro ----
L = tf.keras.layers
m = tf.keras.Sequential([
    L.Input((8,)), L.Dense(6, name="b1_a"), L.Dense(4, name="b1_b")])
hm = hyper(m, {"^b1_": [4, 4, 4]})
build(hm, {"^b1__kernel_quantizer": "binary"})
hp = kt.HyperParameters()
hp.values["^b1__kernel_quantizer"] = "quantized_bits(4,0,1)"
with contextlib.redirect_stdout(io.StringIO()):
  q, _ = hm.quantize_model(hp)
got = [str(q.get_layer(n).get_quantizers()[0]) for n in ["b1_a", "b1_b"]]
print("hp asks for quantized_bits(4,0,1); trial kernels:", got)
finish(any("quantized_bits" not in g for g in got))
