"""Short limit lists are padded with 'default' only for class-name keys; for a
name pattern the missing activation limit silently becomes the LAST entry that
is present (here the bias limit)."""
# ---- helpers (same in every repro) ----
import contextlib, io, sys
import tensorflow as tf
import keras_tuner as kt
from qkeras.autoqkeras.autoqkeras_internal import AutoQKHyperModel
from qkeras.autoqkeras.forgiving_metrics import ForgivingFactorBits
from qkeras.autoqkeras.quantization_config import default_quantization_config


def target(**kw):
  p = dict(delta_p=8.0, delta_n=8.0, rate=2.0, stress=1.0, input_bits=8,
           output_bits=8, ref_bits=8,
           config={"default": ["parameters", "activations"]})
  p.update(kw)
  return ForgivingFactorBits(**p)


def hyper(model, limit, tgt=None, qc=None, **kw):
  model.compile(optimizer=tf.keras.optimizers.Adam(1e-3), loss="mse")
  kw.setdefault("tune_filters_exceptions", "^$")   # matches no layer name
  with contextlib.redirect_stdout(io.StringIO()):
    return AutoQKHyperModel(model, ["acc"], None, tgt or target(), limit=limit,
                            quantization_config=qc or default_quantization_config,
                            **kw)


def build(hm, values=None):
  hp = kt.HyperParameters()
  hp.values.update(values or {})
  with contextlib.redirect_stdout(io.StringIO()):
    qm = hm.build(hp)
  return qm, hp


def space(hp):
  return {h.name: list(getattr(h, "values", None) or [h.value]) for h in hp.space}


def finish(failed):
  print("FAIL" if failed else "PASS")
  sys.exit(1 if failed else 0)
# ---- repro ----
L = tf.keras.layers
m = tf.keras.Sequential([
    L.Input((10,)), L.Dense(3, name="ba_d", activation="relu"),
    L.Dense(3, name="cd", activation="relu")])
# both entries omit the activation limit -> default (4) should apply
hm = hyper(m, {"^ba_": [2, 8], "Dense": [2, 8], "default": 4})
print("adjusted limit:", hm.limit)
qm, hp = build(hm)
sp = space(hp)
cfg = default_quantization_config["activation"]
by_class = max(cfg[q] for q in sp["cd_activation_quantizer"])
by_pattern = max(cfg[q] for q in sp["^ba__activation_quantizer"])
print("widest activation offered, class entry  :", by_class)
print("widest activation offered, pattern entry:", by_pattern)
qm, hp = build(hm, {"^ba__activation_quantizer": "quantized_relu(8,4)"})
a = qm.get_layer("ba_d").activation
print("trial: ba_d activation ->", a, "bits", a.bits, "(default limit 4)")
finish(by_pattern > 4 or a.bits > 4)
