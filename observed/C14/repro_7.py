"""quantized_bits(bits, integer<0, alpha="auto_po2") is a valid quantizer
(the layer builds and predicts), but model_save_quantized_weights crashes on
it: utils.py computes K.pow(2, quantizer.integer) with python ints
("Integers to negative integer powers are not allowed"), whereas the quantizer
itself uses float powers.  No export, no dictionary; layers before the
offending one are already overwritten."""
import io, contextlib, sys
import numpy as np
import tensorflow as tf
from qkeras import QDense, quantized_bits
from qkeras.utils import model_save_quantized_weights

rng = np.random.default_rng(0)
x = rng.standard_normal((4, 8)).astype(np.float32)
inp = tf.keras.Input((8,))
out = QDense(6, kernel_quantizer=quantized_bits(6, -1, alpha="auto_po2"),
             bias_quantizer=None, name="d")(inp)
m = tf.keras.Model(inp, out)
m.set_weights([(0.2 * rng.standard_normal((8, 6))).astype(np.float32),
               rng.standard_normal(6).astype(np.float32)])
print("model predicts fine, output shape", m.predict(x, verbose=0).shape)
fail = False
try:
  with contextlib.redirect_stdout(io.StringIO()):
    d = model_save_quantized_weights(m)
  w = m.get_layer("d").get_weights()[0]
  ints = w / np.array(d["d"]["scales"][0])
  print("exported; integer range", ints.min(), ints.max())
except Exception as e:
  print("export raised", type(e).__name__, ":", str(e).splitlines()[0][:160])
  fail = True
print("FAIL" if fail else "PASS")
sys.exit(1 if fail else 0)
