"""clone_model_and_freeze_auto_po2_scale silently returns a DIFFERENT network
for anything that is not 'InputLayer followed by a linear chain':
 * Sequential model: model.layers has no InputLayer, so layers[1:] drops the
   first real layer (here the input QActivation) without any error;
 * functional model with two parallel branches: the layers are re-chained
   sequentially (d2 is applied to d1's output instead of the input).
So the frozen model and its exported weights (quantize_model_weights=True, the
internal HW-weight check passes) do not give the predictions of the original
model's export.
Additionally the utility crashes (TypeError) for a QBatchNormalization whose
gamma quantizer is quantized_bits (auto-converted to auto_po2)."""
import io, contextlib, sys
import numpy as np
import tensorflow as tf
from qkeras import (QDense, QActivation, QConv2D, QBatchNormalization,
                    quantized_bits)
from qkeras.utils import (model_save_quantized_weights,
                          clone_model_and_freeze_auto_po2_scale)


def quiet(f, *a, **k):
  with contextlib.redirect_stdout(io.StringIO()):
    return f(*a, **k)

rng = np.random.default_rng(9)
x = (3 * rng.standard_normal((4, 6))).astype(np.float32)
ap = lambda: quantized_bits(4, 0, alpha="auto_po2")


def randomize(m):
  m.set_weights([rng.standard_normal(w.shape).astype(np.float32)
                 for w in m.get_weights()])

fail = False

# 1. Sequential: first layer dropped
m = tf.keras.Sequential([QActivation("quantized_bits(3,0)", input_shape=(6,)),
                         QDense(4, kernel_quantizer=ap(), name="d")])
randomize(m)
new, hw = quiet(clone_model_and_freeze_auto_po2_scale, m,
                quantize_model_weights=True)
quiet(model_save_quantized_weights, m)          # export of the original
p_orig, p_new = m.predict(x, verbose=0), new.predict(x, verbose=0)
print("Sequential: layer classes", [l.__class__.__name__ for l in m.layers],
      "->", [l.__class__.__name__ for l in new.layers])
print("  exported weights equal:",
      all(np.array_equal(a, b) for a, b in zip(m.get_weights(), new.get_weights())),
      "| max prediction difference original export vs frozen export: %g"
      % np.max(np.abs(p_orig - p_new)))
fail |= not np.allclose(p_orig, p_new, atol=1e-5)

# 2. two parallel branches
inp = tf.keras.Input((6,))
a = QDense(6, kernel_quantizer=ap(), name="d1")(inp)
b = QDense(6, kernel_quantizer=ap(), name="d2")(inp)
m = tf.keras.Model(inp, [a, b])
randomize(m)
new, hw = quiet(clone_model_and_freeze_auto_po2_scale, m,
                quantize_model_weights=True)
quiet(model_save_quantized_weights, m)
p_orig = m.predict(x, verbose=0)
p_new = new.predict(x, verbose=0)
print("branches: original has", len(m.outputs), "outputs, frozen clone has",
      len(new.outputs))
diff = np.max(np.abs(p_orig[1] - p_new))
print("  max difference between original d2 output and clone output: %g" % diff)
fail |= diff > 1e-5

# 3. BN with quantized_bits gamma quantizer: crash
inp = tf.keras.Input((5, 5, 3), name="in")
h = QConv2D(4, 2, kernel_quantizer=ap(), name="c")(inp)
h = QBatchNormalization(gamma_quantizer=quantized_bits(6, 2),
                        variance_quantizer=None, beta_quantizer=None,
                        mean_quantizer=None, name="bn")(h)
m = tf.keras.Model(inp, h)
try:
  quiet(clone_model_and_freeze_auto_po2_scale, m)
  print("BN gamma quantized_bits: ok")
except Exception as e:
  print("BN gamma quantized_bits: freezing raised", type(e).__name__, ":",
        str(e)[:100])
  fail = True

print("FAIL" if fail else "PASS")
sys.exit(1 if fail else 0)
