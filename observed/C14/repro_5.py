"""Quantized layers that are not direct members of model.layers are silently
skipped by model_save_quantized_weights: layers of a nested functional model,
a QDense inside TimeDistributed, a QLSTM inside tf.keras Bidirectional, a
Q*Cell inside tf.keras RNN.  They keep float weights and are absent from the
returned dictionary (only "... has not been quantized" is printed).  A nested
Sequential makes the export crash with a bare AssertionError."""
import io, contextlib, sys
import numpy as np
import tensorflow as tf
from qkeras import QDense, QLSTM, QSimpleRNNCell, quantized_bits
from qkeras.utils import model_save_quantized_weights


def export(m):
  with contextlib.redirect_stdout(io.StringIO()):
    return model_save_quantized_weights(m)

q = lambda: quantized_bits(4, 0, alpha=1)
rng = np.random.default_rng(0)


def randomize(m):
  m.set_weights([rng.standard_normal(w.shape).astype(np.float32)
                 for w in m.get_weights()])


def on_grid(layer_weights, quant):
  return all(np.array_equal(w, np.array(quant(tf.constant(w))))
             for w in layer_weights)

fail = False

# 1. nested functional model
i2 = tf.keras.Input((6,))
inner = tf.keras.Model(i2, QDense(5, kernel_quantizer=q(), bias_quantizer=q(),
                                  name="inner_d")(i2), name="inner")
inp = tf.keras.Input((6,))
out = QDense(3, kernel_quantizer=q(), bias_quantizer=q(),
             name="outer_d")(inner(inp))
m = tf.keras.Model(inp, out)
randomize(m)
d = export(m)
ok = on_grid(inner.get_layer("inner_d").get_weights(), q())
print("nested model: dict keys", list(d.keys()),
      "| inner_d holds quantized weights:", ok)
fail |= ("inner_d" not in d) or not ok

# 2. TimeDistributed(QDense)
inp = tf.keras.Input((3, 6))
td = tf.keras.layers.TimeDistributed(
    QDense(4, kernel_quantizer=q(), bias_quantizer=q(), name="td_d"))
m = tf.keras.Model(inp, td(inp))
randomize(m)
d = export(m)
ok = on_grid(td.layer.get_weights(), q())
print("TimeDistributed(QDense): dict keys", list(d.keys()),
      "| holds quantized weights:", ok)
fail |= (len(d) == 0) or not ok

# 3. tf.keras Bidirectional(QLSTM)
inp = tf.keras.Input((3, 6))
bi = tf.keras.layers.Bidirectional(
    QLSTM(4, kernel_quantizer=q(), recurrent_quantizer=q(),
          bias_quantizer=q()))
m = tf.keras.Model(inp, bi(inp))
randomize(m)
d = export(m)
ok = on_grid(bi.get_weights(), q())
print("Bidirectional(QLSTM): dict keys", list(d.keys()),
      "| holds quantized weights:", ok)
fail |= (len(d) == 0) or not ok

# 4. tf.keras RNN(QSimpleRNNCell)
inp = tf.keras.Input((3, 6))
rnn = tf.keras.layers.RNN(QSimpleRNNCell(
    4, kernel_quantizer=q(), recurrent_quantizer=q(), bias_quantizer=q()))
m = tf.keras.Model(inp, rnn(inp))
randomize(m)
d = export(m)
ok = on_grid(rnn.get_weights(), q())
print("RNN(QSimpleRNNCell): dict keys", list(d.keys()),
      "| holds quantized weights:", ok)
fail |= (len(d) == 0) or not ok

# 5. nested Sequential -> crash
inner = tf.keras.Sequential(
    [QDense(5, kernel_quantizer=q(), bias_quantizer=q(), input_shape=(6,))],
    name="inner_seq")
m = tf.keras.Sequential([inner, QDense(3, kernel_quantizer=q(),
                                       bias_quantizer=q())])
randomize(m)
try:
  export(m)
  print("nested Sequential: exported")
except BaseException as e:  # AssertionError
  print("nested Sequential: export raised", type(e).__name__, repr(str(e)))
  fail = True

print("FAIL" if fail else "PASS")
sys.exit(1 if fail else 0)
