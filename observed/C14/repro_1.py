"""quantized_relu_po2(negative_slope != 0) as a weight quantizer.

(a) the exported dictionary has no "signs" entry, so sign * 2**exponent cannot
    rebuild the (negative) stored weights;
(b) the quantizer is not idempotent (negative values are multiplied by the
    slope on every application), so the export changes the predictions and a
    second export changes the weights, although the scale is data independent.
"""
import io, contextlib, sys
import numpy as np
import tensorflow as tf
from qkeras import QDense, quantized_relu_po2
from qkeras.utils import model_save_quantized_weights


def export(m):
  with contextlib.redirect_stdout(io.StringIO()):
    return model_save_quantized_weights(m)

rng = np.random.default_rng(0)
x = rng.standard_normal((8, 6)).astype(np.float32)
inp = tf.keras.Input((6,))
out = QDense(5, kernel_quantizer=quantized_relu_po2(4, negative_slope=0.25),
             bias_quantizer=None, name="d")(inp)
m = tf.keras.Model(inp, out)
m.set_weights([rng.standard_normal((6, 5)).astype(np.float32),
               rng.standard_normal(5).astype(np.float32)])

p0 = m.predict(x, verbose=0)
d = export(m)
w1 = m.get_weights()[0]
p1 = m.predict(x, verbose=0)
export(m)
w2 = m.get_weights()[0]

fail = False
entry = d["d"]
signs = entry["signs"][0] if "signs" in entry else 1.0
rebuilt = signs * np.power(2.0, entry["weights"][0])
print("dict keys:", sorted(entry.keys()))
print("stored kernel has negative values:", bool((w1 < 0).any()))
if not np.array_equal(rebuilt.astype(np.float32), w1):
  print("sign * 2^exponent != stored weight, max diff",
        np.max(np.abs(rebuilt - w1)))
  fail = True
if not np.allclose(p0, p1, atol=1e-5):
  print("export changed predictions, max diff", np.max(np.abs(p0 - p1)))
  fail = True
if not np.array_equal(w1, w2):
  print("second export changed weights, max diff", np.max(np.abs(w1 - w2)))
  fail = True
print("FAIL" if fail else "PASS")
sys.exit(1 if fail else 0)
