"""quantized_linear(alpha="auto_po2") -- the documented successor of
quantized_bits -- is an auto-po2 fixed-point weight quantizer, but the export
only recognises the class name "quantized_bits": the dictionary has no
"scales" entry and "weights" holds the float values, so the HW form
(scale, integer weight) cannot be obtained from the returned dictionary."""
import io, contextlib, sys
import numpy as np
import tensorflow as tf
from qkeras import QDense, quantized_bits, quantized_linear
from qkeras.utils import model_save_quantized_weights

rng = np.random.default_rng(0)
w0 = [rng.standard_normal((8, 6)).astype(np.float32),
      rng.standard_normal(6).astype(np.float32)]
res = {}
for label, q in (("quantized_bits", quantized_bits(4, 0, alpha="auto_po2")),
                 ("quantized_linear", quantized_linear(4, 0, alpha="auto_po2"))):
  inp = tf.keras.Input((8,))
  m = tf.keras.Model(inp, QDense(6, kernel_quantizer=q, bias_quantizer=None,
                                 name="d")(inp))
  m.set_weights(w0)
  with contextlib.redirect_stdout(io.StringIO()):
    d = model_save_quantized_weights(m)
  res[label] = (d["d"], m.get_weights()[0])
  print(label, "-> dict keys", sorted(d["d"].keys()))
same_weights = np.array_equal(res["quantized_bits"][1], res["quantized_linear"][1])
print("both quantizers store identical kernels:", same_weights)
fail = "scales" not in res["quantized_linear"][0]
if fail:
  print("quantized_linear(auto_po2): no 'scales' entry -> scale * integer "
        "cannot be rebuilt from the dictionary")
print("FAIL" if fail else "PASS")
sys.exit(1 if fail else 0)
