"""quantized_bits(bits, integer, symmetric) with the default alpha (the
canonical fixed-point spec) is silently turned into alpha="auto_po2" when used
as a kernel quantizer (QDense/QConv*/QDepthwise/... call
_set_trainable_parameter()).  The 'fixed-point' layer therefore re-derives its
scale from the already exported weights: the export changes predictions and a
second export changes the weights."""
import io, contextlib, sys
import numpy as np
import tensorflow as tf
from qkeras import QDense, quantized_bits
from qkeras.utils import model_save_quantized_weights


def export(m):
  with contextlib.redirect_stdout(io.StringIO()):
    return model_save_quantized_weights(m)

rng = np.random.default_rng(11)
x = rng.standard_normal((8, 16)).astype(np.float32)
fail = False
n_bad = 0
for trial in range(40):
  tf.keras.backend.clear_session()
  bits = int(rng.integers(2, 5))
  scale = float(rng.choice([0.05, 0.3, 1.0, 4.0]))
  q = quantized_bits(bits, 0, 1)          # alpha left at its default (None)
  inp = tf.keras.Input((16,))
  m = tf.keras.Model(inp, QDense(8, kernel_quantizer=q,
                                 bias_quantizer=quantized_bits(8, 3),
                                 name="d")(inp))
  m.set_weights([(rng.laplace(size=(16, 8)) * scale).astype(np.float32),
                 rng.standard_normal(8).astype(np.float32)])
  p0 = m.predict(x, verbose=0)
  export(m); w1 = m.get_weights()[0].copy(); p1 = m.predict(x, verbose=0)
  export(m); w2 = m.get_weights()[0].copy()
  c1 = not np.allclose(p0, p1, atol=1e-5)
  c2 = not np.array_equal(w1, w2)
  if c1 or c2:
    n_bad += 1
    if n_bad <= 3:
      print("trial", trial, "quantized_bits(%d,0,1)" % bits,
            "alpha is now", repr(m.get_layer("d").kernel_quantizer_internal.alpha),
            "| export changed predictions:", c1, "max diff %g" % np.max(np.abs(p0 - p1)),
            "| second export changed weights:", c2, "max diff %g" % np.max(np.abs(w1 - w2)))
print("violating trials:", n_bad, "of 40")
fail = n_bad > 0
print("FAIL" if fail else "PASS")
sys.exit(1 if fail else 0)
