"""quantized_bits(bits, integer, keep_negative=False, alpha="auto_po2"):
the declared type is an UNSIGNED `bits`-bit integer (range [0, 2**bits-1]),
but the auto-scale branch of the quantizer ignores keep_negative, so the
exported integer weights (stored weight / exported scale) are negative, i.e.
outside the declared bit range.  Same with the scale frozen by
clone_model_and_freeze_auto_po2_scale."""
import io, contextlib, sys
import numpy as np
import tensorflow as tf
from qkeras import QDense, quantized_bits
from qkeras.utils import (model_save_quantized_weights,
                          clone_model_and_freeze_auto_po2_scale)


def quiet(f, *a, **k):
  with contextlib.redirect_stdout(io.StringIO()):
    return f(*a, **k)

rng = np.random.default_rng(0)
bits = 4
inp = tf.keras.Input((8,), name="in")
out = QDense(6, kernel_quantizer=quantized_bits(bits, 0, keep_negative=False,
                                                alpha="auto_po2"),
             bias_quantizer=None, name="d")(inp)
m = tf.keras.Model(inp, out)
m.set_weights([rng.standard_normal((8, 6)).astype(np.float32),
               rng.standard_normal(6).astype(np.float32)])
frozen, _ = quiet(clone_model_and_freeze_auto_po2_scale, m)

fail = False
for label, mod in (("dynamic scale", m), ("frozen scale", frozen)):
  d = quiet(model_save_quantized_weights, mod)
  stored = mod.get_layer("d").get_weights()[0]
  scale = np.array(d["d"]["scales"][0])
  ints = stored / scale
  assert np.array_equal(ints, np.round(ints))
  lo, hi = 0, 2 ** bits - 1
  print(label, ": integer weights span [%d, %d], declared unsigned %d-bit range"
        " is [%d, %d]" % (ints.min(), ints.max(), bits, lo, hi))
  if ints.min() < lo or ints.max() > hi:
    fail = True
print("FAIL" if fail else "PASS")
sys.exit(1 if fail else 0)
