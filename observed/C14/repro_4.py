"""quantized_po2 / quantized_relu_po2 with log2_rounding="floor" are not
idempotent: floor(log(x)/log(2)) is evaluated in float32 and for exact powers
of two such as 2**-13 (also 2**15, 2**30, ...) it yields -13.000001 -> -14.
A weight with 2**-13 <= |w| < 2**-12 is exported as 2**-13, and the next
export (and every forward pass) turns it into 2**-14."""
import io, contextlib, sys
import numpy as np
import tensorflow as tf
from qkeras import QDense, quantized_po2
from qkeras.utils import model_save_quantized_weights


def export(m):
  with contextlib.redirect_stdout(io.StringIO()):
    return model_save_quantized_weights(m)

rng = np.random.default_rng(0)
inp = tf.keras.Input((64,))
out = QDense(64, kernel_quantizer=quantized_po2(6, log2_rounding="floor"),
             bias_quantizer=None, use_bias=False, name="d")(inp)
m = tf.keras.Model(inp, out)
# ordinary small weights (sigma = 0.01); nothing hand-crafted
w = (0.01 * rng.standard_normal((64, 64))).astype(np.float32)
m.set_weights([w])
x = (1000 * rng.standard_normal((4, 64))).astype(np.float32)

p0 = m.predict(x, verbose=0)
d = export(m)
w1 = m.get_weights()[0].copy()
p1 = m.predict(x, verbose=0)
export(m)
w2 = m.get_weights()[0].copy()

changed = np.argwhere(w1 != w2)
print("weights changed by the second export:", len(changed))
for i, j in changed[:5]:
  print("  original %.8g -> 1st export 2^%d -> 2nd export 2^%d" % (
      w[i, j], np.log2(abs(w1[i, j])), np.log2(abs(w2[i, j]))))
print("max |prediction change| caused by the first export:",
      np.max(np.abs(p0 - p1)))
fail = len(changed) > 0 or not np.allclose(p0, p1, rtol=1e-5, atol=1e-5)
print("FAIL" if fail else "PASS")
sys.exit(1 if fail else 0)
