"""ternary with a constant scale below its threshold (alpha=0.25, default
threshold 0.33) or with threshold > alpha is not idempotent: the exported
weights +-alpha fall inside the dead band and are zeroed by the next
application.  Scale is a constant, yet the export changes predictions and a
second export wipes the weights."""
import io, contextlib, sys
import numpy as np
import tensorflow as tf
from qkeras import QDense, ternary
from qkeras.utils import model_save_quantized_weights


def export(m):
  with contextlib.redirect_stdout(io.StringIO()):
    return model_save_quantized_weights(m)

rng = np.random.default_rng(0)
x = rng.standard_normal((8, 6)).astype(np.float32)
fail = False
for label, mk in [("ternary(alpha=0.25)", lambda: ternary(alpha=0.25)),
                  ("ternary(alpha=1, threshold=1.5)",
                   lambda: ternary(alpha=1, threshold=1.5))]:
  inp = tf.keras.Input((6,))
  out = QDense(5, kernel_quantizer=mk(), bias_quantizer=mk(), name="d")(inp)
  m = tf.keras.Model(inp, out)
  m.set_weights([(2 * rng.standard_normal((6, 5))).astype(np.float32),
                 (2 * rng.standard_normal(5)).astype(np.float32)])
  p0 = m.predict(x, verbose=0)
  export(m)
  w1 = [w.copy() for w in m.get_weights()]
  p1 = m.predict(x, verbose=0)
  export(m)
  w2 = m.get_weights()
  ch_pred = not np.allclose(p0, p1, atol=1e-5)
  ch_w = any(not np.array_equal(a, b) for a, b in zip(w1, w2))
  print(label, "| export changed predictions:", ch_pred,
        "(max diff %g)" % np.max(np.abs(p0 - p1)),
        "| second export changed weights:", ch_w,
        "| non-zero kernel entries after 1st/2nd export:",
        int(np.count_nonzero(w1[0])), int(np.count_nonzero(w2[0])))
  fail |= ch_pred or ch_w
print("FAIL" if fail else "PASS")
sys.exit(1 if fail else 0)
