#!/bin/sh
# usage: tools/try_mutant.sh <worktree> <PROP> [more props]
# 1. confirms the demonstration in the worktree (FAIL with the change, PASS without)
# 2. applies the patch to /repo, runs the quick check(s), reverts /repo.
WT="$1"; shift
ENVV="TF_USE_LEGACY_KERAS=1 PROTOCOL_BUFFERS_PYTHON_IMPLEMENTATION=python TF_CPP_MIN_LOG_LEVEL=3 PYTHONPATH=$WT"
cd "$WT" || exit 2
git diff -- qkeras > _out/patch.diff
echo "== demo with change"; env $ENVV timeout 600 /venv/bin/python _out/demo.py 2>/dev/null | tail -3; echo "exit=$?"
git apply -R _out/patch.diff
echo "== demo without change"; env $ENVV timeout 600 /venv/bin/python _out/demo.py 2>/dev/null | tail -2; echo "exit=$?"
git apply _out/patch.diff
cd /verif
git -C /repo status --short | grep -q . && { echo "/repo not clean"; exit 2; }
git -C /repo apply "$WT/_out/patch.diff" || { echo "patch does not apply"; exit 2; }
for P in "$@"; do
  echo "== check $P on mutated /repo"
  ./check "$P" --tier quick 2>&1 | grep -v "^\.\.\.\|has not been" | grep -E "^(VIOLATION|violation:|HARNESS|KNOWN|C[0-9]+ tier)" | cut -c1-400
  echo "rc=$?"
done
git -C /repo checkout -- .
git -C /repo status --short | head -3
