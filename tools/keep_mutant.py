"""usage: keep_mutant.py <worktree> <seeded-id> <property> <caught-by> <signature> -- <needs...>
Copies patch.diff, demo.py, notes.md into /verif/seeded/<id>/ and writes meta.json."""
import json
import os
import shutil
import sys

wt, sid, prop, caught, sig = sys.argv[1:6]
needs = " ".join(sys.argv[7:])
dst = os.path.join("/verif/seeded", sid)
os.makedirs(dst, exist_ok=True)
for f in ("patch.diff", "demo.py", "notes.md"):
  shutil.copy(os.path.join(wt, "_out", f), os.path.join(dst, f))
meta = {
    "property": prop,
    "breaks": open(os.path.join(wt, "_out", "notes.md")).read()[:1500],
    "needs_to_manifest": needs,
    "source": "independent sub-agent given only the property text and a scratch worktree",
    "confirmed": {
        "demo_with_change": "FAIL",
        "demo_without_change": "PASS",
        "baseline_tests": "90 passed before and after (same ids), as reported by the agent's junit/-rA comparison",
        "commands": [
            "cd <worktree> && TF_USE_LEGACY_KERAS=1 PROTOCOL_BUFFERS_PYTHON_IMPLEMENTATION=python PYTHONPATH=<worktree> /venv/bin/python _out/demo.py (with the change, then after git apply -R)",
            "git -C /repo apply patch.diff && ./check %s --tier quick ; git -C /repo checkout -- ." % caught.split(",")[0],
        ],
    },
    "caught_by": caught.split(","),
    "violation_signature": sig,
}
with open(os.path.join(dst, "meta.json"), "w") as f:
  json.dump(meta, f, indent=1)
print("kept", dst)
