"""Regenerates /verif/MANIFEST.json (kept in one place so it always validates)."""
import json
import os

HERE = os.path.dirname(os.path.dirname(os.path.abspath(__file__)))
NA = {
    "C01": "pure function of (configuration, input): no schedule, clock, draw, fault, I/O or history in the statement; deciding it is breakpoint/input enumeration, not simulation (DESIGN 5)",
    "C02": "pure function of (configuration, input); idempotence/monotonicity are two pure evaluations, not a history (DESIGN 5)",
    "C03": "pure function of (configuration, input) over exponent breakpoints; nothing for a scheduler or fault injector to decide (DESIGN 5)",
    "C06": "gradient of a pure function of the input; no state, time, randomness or I/O in the statement (DESIGN 5)",
    "C10": "text -> constructor arguments is a pure parse and str(q) -> quantizer a pure composition; no nondeterminism or fault surface (DESIGN 5)",
    "C11": "one layer call is a pure function of (configuration, weights, input); the statement names no history, phase, draw or I/O (DESIGN 5)",
    "C12": "pure program translation (model, dictionary) -> model; only one of five clauses (non-mutation) is state-like, too little to claim the property (DESIGN 5)",
    "C16": "arithmetic fact about finite value lattices of operand types; no schedule/fault dimension (DESIGN 5)",
    "C17": "arithmetic fact about finite value lattices of sums; no schedule/fault dimension (DESIGN 5)",
    "C18": "static analysis result vs arithmetic worst case for one model; no history reaches the result (DESIGN 5)",
    "C19": "counting formula vs loop-nest count; the process-global cfg is rewritten with the same constants on every construction, no history (DESIGN 5)",
}
BASE = ("qkeras from /repo working tree on tf_keras 2.21 (TF_USE_LEGACY_KERAS=1) / TF 2.21 CPU, "
        "1 TF thread, op determinism; ")
TECH = "deterministic simulation with fault injection: "

CHECKS = {
    "C20": ("A", "exploration",
            "AutoQKHyperModel is a stateful server (pattern groups, adjusted limits, target's cached reference and last trial size, the reference model and optimizer) driven by another party. A fake tuner owning real keras_tuner HyperParameters discovers the space, then issues seeded trial sequences with duplicates, reordered batches, builds that die at the k-th hp request or right after quantize_model, walks of small spaces (exhaustive when below the cap) and block sequencing with a shared target as AutoQKerasScheduler does. Per trial, independently of qkeras' bookkeeping: every quantizer on the trial model is a configured string of its tensor role within the limit of the matching pattern/class, layers outside limits or layer_indexes keep class and config, pattern groups share a choice, names/order equal the reference and units/filters follow max(int(n*scale),1), the reference model/optimizer is unchanged; history: the trial model equals what a fresh hyper-model builds for the same assignment; forgiving factor: zero at equal size, sign, strictly decreasing in trial size, per-layer size entries = elements x bits. Sampling, not proof.",
            BASE + "keras-tuner 1.0.3 HyperParameters with PROTOCOL_BUFFERS_PYTHON_IMPLEMENTATION=python; no training or scoring; GRU reference layers excluded (QGRU reset_after path cannot run on TF 2.21); pointwise/recurrent kernels are judged against the kernel section and limit, as the hyper-model documents.",
            TECH + "hyper-model as a server under a fake tuner issuing seeded trial/duplicate/reorder/crash/next-block sequences; independent per-trial oracle + fresh-server history oracle",
            "4 C20"),
    "C15": ("T", "exploration",
            "The folded conv+BN layers carry a step clock (_iteration) and EMA state; inference equality is checked at arbitrary instants of a simulated training history: before the first step, inside the pre-freeze window, exactly at ema_freeze_delay, just past it, after clock jumps (checkpoint loads), after BN statistic faults (tiny variance, zero/negative gamma, large mean), after restarts (json/clone/h5) and after conversion from a stock conv+BN model. At every probe the model must equal a stock Keras model whose folded layers are replaced by conv layers holding [q(kernel*gamma/sqrt(var+eps)), q((bias-mean)*gamma/sqrt(var+eps)+beta)] computed by the harness from the current parameters, and the probe must change no variable (clock, moving statistics, weights); unfold_model and model_quantize(enable_bn_folding) must preserve predictions. Sampling, not proof.",
            BASE + "training calls are forward passes with training=True plus real model.fit steps (FIT op); BN epsilon/momentum and a fused activation are varied for directly built layers only (the conversion utilities rebuild the architecture with default BN hyper-parameters); probes whose folded values sit within 2e-6 (relative) of a rounding breakpoint are not judged; conversion is compared with the source within the error of 16-bit weights and then by the exact per-layer oracle.",
            TECH + "virtual step clock with jumps and statistic faults driving real folded layers; reference model rebuilt from current parameters at every probe",
            "4 C15"),
    "C13": ("M", "exploration",
            "Restart of a whole model with real I/O: generated quantized models over every layer class of the custom-object table are rebuilt from JSON, the library clone, HDF5 on a scratch path, HDF5 through a simulated file object under h5py's file-object driver, and a weights file, at arbitrary points of a history (weight perturbations, an export, a completed or interrupted noise schedule that left variable-backed knobs, training calls moving QAdaptiveActivation ranges, a real optimizer step whose optimizer state is saved too, compile); predictions must be bit-identical and layers must report the same quantizers, with no custom objects. Disk faults (ENOSPC/EIO at the n-th write, short writes, crash with only flushed bytes surviving) are injected into model.save: the live model must stay untouched and a subsequent complete save must round-trip. Sampling, not proof.",
            BASE + "crash granularity = write/flush calls h5py issues on the file object; a torn file is not opened (the property does not say what a truncated HDF5 must do, and HDF5 can spin forever on one); QConv2DTranspose excluded (cannot run on TF 2.21).",
            TECH + "restart-from-durable-state histories on generated models, SimFile disk with injected write errors/short writes/crashes, read-only invariant on the live model",
            "4 C13"),
    "C14": ("M", "fault_enumeration",
            "The export is an interruptible sequence of in-place writes plus a file write. Per generated model every crash point is enumerated (the k-th layer.set_weights raises for every k, and the final save_weights raises), then a clean export must satisfy the per-layer relation and, for data-independent scales, equal an uninterrupted export exactly. After every completed export: stored weights = role quantizer (paired through variable names, not get_quantizers order) applied once; dictionary consistent (po2 sign*2^exponent aligned by index, auto_po2 scale entry and integer relation, BN-fusing algebra on quantized parameters); written file reloads to the exported weights; data-independent / frozen models keep predictions and a second export changes nothing. Models and weights are sampled.",
            BASE + "crash points are layer boundaries (instance-level wrapper on set_weights/save_weights), not inside a TF/HDF5 call; folded conv+BN layers are not exported by design and not judged here; three recorded known findings (known_findings.json).",
            TECH + "fault enumeration over export crash points per generated model + seeded export/perturb/freeze histories; role-based reference oracle",
            "4 C14"),
    "C07": ("Q+T", "exploration",
            "Quantizer half: the knob is mutable state (python float or tf.Variable); seeded orders of update (float/const/Variable argument), variable build, tf.function trace, set_trainable and restart around calls; after every call y = surrogate + f*(fully quantized sibling - surrogate), f=1 bit-identical to the sibling, constructor-constant sibling agrees, a trace taken after the variable build follows later updates. Scheduler half: a virtual step clock emits Keras callback event sequences (interrupted fits, repeated fits with one callback, resumes with a fresh callback, duplicated train_begin, clock jumps) against the real QNoiseScheduler and real models; at every update step every knob-bearing quantizer found by an independent attribute walk (nested models, TimeDistributed / Bidirectional / RNN-around-cell wrappers, recurrent cells and their activation quantizers included) carries 0 before start, 1 from finish, the documented curve between, never decreasing; real model.fit runs validate the simulated event source, and learning-rate-0 fits on lazily built and functional models compare the loss reported by the compiled train step with the eager loss at the scheduled factor (the factor the traced step really used). Sampling, not proof.",
            BASE + "simulated fits do not train weights (the property does not depend on them); traces taken before the variable build and traced auto-scale quantizers are not judged (TensorFlow constant capture / graph float reassociation).",
            TECH + "virtual step clock driving the real callback with injected interrupts/resumes/clock jumps + seeded update/build/trace orderings on the knob; shadow reference model of the schedule",
            "4 C07"),
    "C04": ("Q", "exploration",
            "quantizer.scale is last-call state read later by other parties; seeded histories interleave callers sharing binary/ternary/stochastic_* objects with scale reads, phase flips, set_trainable, restarts and failed draws. After every call: y = exposed scale x sign/ternary code, zero<=>below threshold (a separating threshold per group for auto), scale >= 0, constant per configured group, equal to the per-group least-squares optimum, power of two within bounds and nearest exponent for auto_po2; a later read returns the last call's scale; repeating a call is bit-identical whatever happened in between. Sampling, not proof.",
            BASE + "stochastic classes are judged in inference phase only (their training phase belongs to C08); channels_last; tolerance of one ulp of x for the straight-through expression.",
            TECH + "seeded interleaving of callers/readers/restarts on shared quantizer objects; independent numpy reference for codes, groups and least-squares scale",
            "4 C04"),
    "C05": ("Q", "exploration",
            "Same state as C04 for quantized_bits/quantized_linear with auto/auto_po2/frozen scales: after every call of a seeded history y/(scale x step) is an in-range integer, the scale is positive and one value per channel/group, 'auto' gives the channel maximum the top code unclipped, auto_po2 scales are powers of two inside the exponent bounds, outputs are finite (zero channels, 1e-6..1e6 magnitudes); SCALED pairs check q(2^k x) = 2^k q(x); FREEZE re-enacts the library's freeze pipeline and the frozen object must reproduce the live output on the source tensor after other calls and restarts; frozen scales never change. Sampling, not proof.",
            BASE + "exponent bounds of quantized_bits are applied to exposed_scale / 2^(bits-keep_negative) (DESIGN 4/C05); channels at the epsilon floor are not judged for the maximum and scaling clauses.",
            TECH + "seeded call/read/restart/freeze histories on shared quantizer objects, format-definition oracle, paired scaled calls",
            "4 C05"),
    "C09": ("Q", "exploration",
            "Seeded search over restart histories: every constructor option of every registered quantizer is restarted through 6 routes (deterministic sweep) and random op histories (qnoise updates, variable build, set_trainable, phase flips, seam modes) are interleaved with restarts; after each restart every call must be bit-identical (output and exposed scale) to a never-restarted twin fed the same random draws. Sampling, not proof.",
            BASE + "the uniform seam feeds live object and twin identical draws; tf.function traces are not exercised for C09.",
            TECH + "seeded op/fault schedule over a quantizer world, restart = only the config dict survives, twin-object oracle, ddmin-minimised replay files",
            "4 C09"),
    "C08": ("Q", "exploration",
            "The uniform draw and the learning phase are behind seams owned by the scheduler: forced draws U=0 and U=1-2^-24 decide adjacency on both branches for every element, K stratified draws decide unbiasedness to step/K without statistics, phase flips interleaved with calls on shared objects decide inference determinism (bit-equality with the round-to-nearest sibling). Sampling over configurations/tensors, exact over the draw extremes.",
            BASE + "grid/range of each format is taken from its definition (bits, integer, signedness); sign-family quantizers (binary/ternary/stochastic_*) are judged on code membership and the inference clause only, quantized_linear with an auto scale only at inference (its scale depends on the draw).",
            TECH + "uniform-draw seam (forced extremes, stratified sweeps, failed draws) + learning-phase flips scheduled by a seeded scheduler; sibling-object oracle",
            "4 C08"),
}


def chk(pid):
  engine, cat, text, note, tech, ref = CHECKS[pid]
  return {
      "property_id": pid,
      "quick_cmd": "./check %s --tier quick" % pid,
      "thorough_cmd": "./check %s --tier thorough" % pid,
      "evidence_file": "/verif/evidence/%s.json" % pid,
      "replay_cmd_template": "./check %s --replay {path}" % pid,
      "engine": engine,
      "level_claimed": {"category": cat, "text": text, "design_ref": ref},
      "level_note": note,
      "technique": tech,
  }


def main():
  claimed = sorted(CHECKS)
  na = dict(NA)
  man = {
      "version": 1,
      "setup_cmd": "./check --selfcheck",
      "hooks": {
          "guard": "QKERAS_VERIF",
          "enable": "no source hooks are needed: all seams are existing attributes/interfaces (tf.random.uniform attribute, K.set_learning_phase, h5py file objects, keras-tuner HyperParameters); checks import /repo's working tree directly with QKERAS_VERIF=1 set",
          "baseline_off_cmd": "cd /repo && /venv/bin/python -m pytest -ra -q -p no:cacheprovider --timeout=900 --continue-on-collection-errors",
          "source_commits": [],
          "add_only": True,
      },
      "engines": [
          {"name": "Q", "path": "sim/engine_q.py",
           "serves_properties": ["C04", "C05", "C07", "C08", "C09"],
           "kind_free_text": "quantizer world: seeded scheduler over caller/reader/updater/serialiser ops on shared quantizer objects; uniform-draw and learning-phase seams"},
          {"name": "T", "path": "sim/t_c15.py", "serves_properties": ["C07", "C15"],
           "kind_free_text": "training-loop world (sim/t_c15.py, scheduler half of sim/p_c07.py): virtual step clock emitting Keras callback events / training calls with interrupts, resumes and clock jumps; real model.fit runs validate the event source"},
          {"name": "M", "path": "sim/engine_m.py", "serves_properties": ["C13", "C14"],
           "kind_free_text": "model world: generated quantized models, restart through JSON/clone/HDF5 on a simulated disk, export with enumerated crash points"},
          {"name": "A", "path": "sim/a_c20.py", "serves_properties": ["C20"],
           "kind_free_text": "AutoQKeras world: hyper-model as a stateful server driven by a fake tuner (duplicates, reordering, crashed builds, block sequencing)"},
      ],
      "checks": [chk(p) for p in claimed],
      "not_applicable": [{"property_id": k, "reason": v} for k, v in sorted(na.items())],
      "notes": "Deterministic simulation with fault injection; see DESIGN.md. exit 0 held / exit 1 VIOLATION line / exit 2 harness error. Genuine defects found and repaired are listed in known_findings.json with status 'fixed'.",
  }
  with open(os.path.join(HERE, "MANIFEST.json"), "w") as f:
    json.dump(man, f, indent=1)
  print("claimed", claimed)


if __name__ == "__main__":
  main()
