#!/bin/sh
# usage: tools/all_quick.sh <seed> [ids...]   - runs the quick checks for one VERIF_SEED and prints one line each
SEED="$1"; shift
IDS="${*:-C04 C05 C07 C08 C09 C13 C14 C15 C20}"
cd "$(dirname "$0")/.." || exit 2
for P in $IDS; do
  OUT=$(VERIF_SEED=$SEED ./check $P --tier quick 2>&1); RC=$?
  echo "seed=$SEED $P rc=$RC $(echo "$OUT" | grep -E "^C[0-9]+ tier" | cut -c1-120)"
  [ $RC -ne 0 ] && echo "$OUT" | grep -E "^(violation:|VIOLATION|HARNESS)" | cut -c1-500
done
exit 0
