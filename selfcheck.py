"""setup_cmd: offline sanity step. Nothing is fetched or compiled."""
import json
import os
import subprocess
import sys

HERE = os.path.dirname(os.path.abspath(__file__))
sys.path.insert(0, HERE)


def main():
  env = dict(os.environ, TF_USE_LEGACY_KERAS="1",
             PROTOCOL_BUFFERS_PYTHON_IMPLEMENTATION="python",
             TF_CPP_MIN_LOG_LEVEL="3", PYTHONDONTWRITEBYTECODE="1")
  code = ("import sys; sys.path.insert(0, %r); sys.path.insert(0, '/repo');"
          "import tensorflow as tf, tf_keras, h5py, qkeras;"
          "import qkeras.quantizers, qkeras.utils;"
          "print('tf', tf.__version__, 'tf_keras', tf_keras.__version__,"
          " 'qkeras from', qkeras.__file__)") % HERE
  p = subprocess.run([sys.executable, "-c", code], env=env,
                     stdout=subprocess.PIPE, stderr=subprocess.PIPE)
  sys.stdout.write(p.stdout.decode())
  if p.returncode != 0:
    sys.stderr.write(p.stderr.decode()[-3000:])
    return 1
  with open(os.path.join(HERE, "MANIFEST.json")) as f:
    man = json.load(f)
  with open(os.path.join(HERE, "known_findings.json")) as f:
    json.load(f)
  os.makedirs(os.path.join(HERE, "evidence"), exist_ok=True)
  os.makedirs(os.path.join(HERE, "replays"), exist_ok=True)
  print("manifest ok: %d checks, %d not applicable" % (
      len(man["checks"]), len(man.get("not_applicable", []))))
  return 0


if __name__ == "__main__":
  sys.exit(main())
