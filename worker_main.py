#!/venv/bin/python
"""Entry point of worker processes (see sim/worker.py)."""
import os
import sys

HERE = os.path.dirname(os.path.abspath(__file__))
REPO = os.environ.get("VERIF_REPO", "/repo")
os.environ.setdefault("TF_USE_LEGACY_KERAS", "1")
os.environ.setdefault("PROTOCOL_BUFFERS_PYTHON_IMPLEMENTATION", "python")
os.environ.setdefault("TF_CPP_MIN_LOG_LEVEL", "3")
os.environ.setdefault("CUDA_VISIBLE_DEVICES", "-1")
os.environ.setdefault("PYTHONDONTWRITEBYTECODE", "1")
os.environ.setdefault("QKERAS_VERIF", "1")
sys.dont_write_bytecode = True
sys.path.insert(0, HERE)
sys.path.insert(0, REPO)

from sim import worker  # noqa: E402

if __name__ == "__main__":
  sys.exit(worker.main())
